#!/bin/bash
# Offline setup after a fresh restore: warm the build cache for the harness and fabio (race + plain).
set -e
cd "$(dirname "$0")"
. ./env.sh
go version
mkdir -p evidence replay
d=$(mktemp -d /var/tmp/verif-setup.XXXXXX)
trap 'rm -rf "$d"' EXIT
(cd harness && go build -race -tags verif -o "$d/vh" ./cmd/vh && go build -tags verif -gcflags=all=-d=checkptr -o "$d/vh-fast" ./cmd/vh)
(cd /repo && go build -race -tags verif -o "$d/fabio" .)
echo setup ok
