#!/usr/bin/env python3
"""Tooling for seeded changes (mutations written by independent sub-agents).

  seedtool.py confirm <prop> <k>        confirm /tmp/mut/<prop>-out/m<k> in the scratch worktree /tmp/mut/<prop>
                                        (builds, existing suite passes, demo fails with / passes without the patch)
                                        and store it as /verif/seeded/<prop>-m<k>/
  seedtool.py run <id> [prop ...] [--tier quick|thorough]
                                        apply /verif/seeded/<id>/patch.diff to /repo, run the checks, undo the patch,
                                        record what caught it in /verif/seeded/<id>/meta.json
"""
import json, os, re, shutil, subprocess, sys, glob

ENV = ("export PATH=/root/go/pkg/mod/golang.org/toolchain@v0.0.1-go1.24.0.linux-amd64/bin:$PATH "
       "GOTOOLCHAIN=local GOPROXY=off GOSUMDB=off GOFLAGS=-mod=mod; ")
BASE = json.load(open("/root/.vp/BASELINE.json"))
ALLOWED_FAIL = set(BASE["flaky"]) | set(BASE["always_fail"])


def sh(cmd, cwd=None, timeout=3600):
    p = subprocess.run(["bash", "-c", ENV + cmd], cwd=cwd, capture_output=True, text=True, errors="replace", timeout=timeout)
    return p.returncode, p.stdout + p.stderr


def suite(wt):
    rc, out = sh("go build ./... && go test -vet=off -count=1 -json -timeout 25m ./... 2>&1", cwd=wt)
    failed = set()
    for line in out.splitlines():
        try:
            ev = json.loads(line)
        except Exception:
            continue
        if ev.get("Action") == "fail" and ev.get("Test"):
            failed.add("%s::%s" % (ev["Package"], ev["Test"]))
    build_broken = "build failed" in out or "[build failed]" in out or "cannot" in out and "FAIL" in out and not failed
    bad = sorted(t for t in failed if t not in ALLOWED_FAIL and t.split("/")[0] + "" not in ALLOWED_FAIL and not any(t.startswith(a + "/") for a in ALLOWED_FAIL))
    return rc, bad, sorted(failed), build_broken, out


def confirm(prop, k):
    src = "/tmp/mut/%s-out/m%s" % (prop, k)
    wt = "/tmp/mut/%s" % prop
    meta = json.load(open(os.path.join(src, "meta.json")))
    demo_files = [f for f in os.listdir(src) if f.endswith(".go")]
    assert len(demo_files) >= 1, "no demo"
    demo_cmd = meta["demo"] if isinstance(meta["demo"], str) else " ".join(meta["demo"])
    m = re.search(r"-run\s+'?\"?([\w\^\$\|]+)", demo_cmd)
    run = m.group(1) if m else "."
    tail = demo_cmd[demo_cmd.find("-run"):] if m else ""
    pkgdir = "./route"
    toks = tail.split()
    for t in toks[2:]:  # after "-run NAME": flags, then the package argument
        if t.startswith("-") and t not in ("--",):
            continue
        t = t.rstrip(";")
        if t == ".":
            pkgdir = "."
        elif t.startswith("./"):
            pkgdir = t.rstrip("/")
        break
    rc, out = sh("git status --porcelain", cwd=wt)
    assert out.strip() == "", "worktree not clean: " + out
    rc, out = sh("git apply %s/patch.diff" % src, cwd=wt)
    assert rc == 0, "patch does not apply: " + out
    rec = {"confirmed_in": wt, "suite_cmd": "go build ./... && go test -vet=off -count=1 ./...", "demo_run": run, "demo_pkg": pkgdir}
    try:
        rc, bad, failed, broken, out = suite(wt)
        if bad:
            # load-dependent tests (e.g. registry/custom dials localhost:8080): re-run the affected packages alone once
            pkgs = sorted(set(t.split("::")[0].replace("github.com/fabiolb/fabio", ".") for t in bad))
            rcx, outx = sh("go test -vet=off -count=1 %s 2>&1 | tail -5" % " ".join(pkgs), cwd=wt)
            rec["suite_retry_of_packages"] = {"packages": pkgs, "output": outx[-400:]}
            if "FAIL" not in outx:
                bad = []
        rec["suite_failed_tests_with_patch"] = failed
        rec["suite_unexpected_failures_with_patch"] = bad
        ok_suite = (not bad) and "[build failed]" not in out
        for f in demo_files:
            shutil.copy(os.path.join(src, f), os.path.join(wt, pkgdir, f))
        rc1, out1 = sh("go test -vet=off -count=1 -run '%s' %s/ 2>&1 | tail -30" % (run, pkgdir), cwd=wt, timeout=1800)
        fails_with = "FAIL" in out1 and "ok  " not in out1.split("FAIL")[-1]
        rec["demo_with_patch"] = out1[-1500:]
        sh("git checkout -- .", cwd=wt)
        rc2, out2 = sh("go test -vet=off -count=1 -run '%s' %s/ 2>&1 | tail -5" % (run, pkgdir), cwd=wt, timeout=1800)
        passes_without = ("ok " in out2) and ("FAIL" not in out2)
        rec["demo_without_patch"] = out2[-600:]
    finally:
        sh("git checkout -- .", cwd=wt)
        for f in demo_files:
            try:
                os.remove(os.path.join(wt, pkgdir, f))
            except FileNotFoundError:
                pass
    rec["suite_passes_with_patch"] = ok_suite
    rec["demo_fails_with_patch"] = fails_with
    rec["demo_passes_without_patch"] = passes_without
    print(json.dumps({k: v for k, v in rec.items() if not k.startswith("demo_w") and k != "suite_failed_tests_with_patch"}, indent=1))
    if not (ok_suite and fails_with and passes_without):
        print("NOT CONFIRMED", prop, k)
        print(rec.get("demo_with_patch", "")[-800:])
        print(rec.get("demo_without_patch", ""))
        print(rec.get("suite_unexpected_failures_with_patch"))
        return 1
    dst = "/verif/seeded/%s" % (AS or "%s-m%s" % (prop, k))
    os.makedirs(dst, exist_ok=True)
    shutil.copy(os.path.join(src, "patch.diff"), dst)
    for f in demo_files:
        shutil.copy(os.path.join(src, f), os.path.join(dst, f + ".txt"))  # .txt: must not be picked up by go tooling
    out_meta = {"property": prop, "breaks": meta.get("summary"), "needs_to_manifest": meta.get("needs_to_manifest"),
                "files_touched": meta.get("files_touched"), "author": "independent sub-agent given only the property text and a scratch worktree",
                "demonstration": {"files": [f + ".txt" for f in demo_files], "place_in": pkgdir, "run": "go test -vet=off -count=1 -run '%s' %s/" % (run, pkgdir)},
                "confirmation": rec, "checks_run": {}}
    json.dump(out_meta, open(os.path.join(dst, "meta.json"), "w"), indent=1)
    print("CONFIRMED ->", dst)
    return 0


def run(sid, props, tier):
    d = "/verif/seeded/%s" % sid
    meta = json.load(open(os.path.join(d, "meta.json")))
    if not props:
        props = [meta["property"]]
    rc, out = sh("git -C /repo status --porcelain")
    assert out.strip() == "", "/repo not clean: " + out
    rc, out = sh("git -C /repo apply %s/patch.diff" % d)
    assert rc == 0, "patch does not apply to /repo: " + out
    saved = {}
    for p in props:
        f = "/verif/evidence/%s.json" % p
        if os.path.exists(f):
            saved[f] = open(f, "rb").read()
    try:
        for p in props:
            env = "VERIF_SEED=%s " % os.environ.get("VERIF_SEED", "1")
            rc, out = sh("cd /verif && %s./check %s %s 2>&1 | grep -E '^(VIOLATION|OK|INCONCLUSIVE|KNOWN|  part=)' | head -12" % (env, p, tier), timeout=7200)
            rc2 = 1 if "VIOLATION" in out else 0
            sigs = re.findall(r"sig=(\S+)", out)
            meta.setdefault("checks_run", {})["%s %s" % (p, tier)] = {"detected": bool(rc2), "signatures": sigs[:6]}
            print(sid, p, tier, "DETECTED" if rc2 else "MISSED", sigs[:4])
            if not rc2:
                print(out[-600:])
    finally:
        sh("git -C /repo checkout -- .")
        # evidence must describe the unchanged tree: put back what was there before the patched run
        for f, b in saved.items():
            open(f, "wb").write(b)
    json.dump(meta, open(os.path.join(d, "meta.json"), "w"), indent=1)


def rebase(sid):
    """The tree moved on under a stored patch (fix commits): re-apply it with a three-way merge and store the result.
    The original stays next to it as patch.orig.diff. Fails (leaving /repo clean) when the merge has conflicts."""
    d = "/verif/seeded/%s" % sid
    rc, out = sh("git -C /repo status --porcelain")
    assert out.strip() == "", "/repo not clean: " + out
    rc, out = sh("git -C /repo apply --3way %s/patch.diff" % d)
    try:
        rc2, st = sh("git -C /repo status --porcelain")
        if rc != 0 or any(l[:2] in ("UU", "AA", "DU", "UD") for l in st.splitlines()):
            print(sid, "REBASE-CONFLICT", out[-300:])
            return 1
        rcb, outb = sh(". /verif/env.sh && cd /repo && go build ./... 2>&1 | tail -5")
        if rcb != 0 or outb.strip():
            print(sid, "REBASE-DOES-NOT-BUILD", outb[-300:])
            return 1
        rc3, diff = sh("git -C /repo diff HEAD")
        if not os.path.exists(os.path.join(d, "patch.orig.diff")):
            os.rename(os.path.join(d, "patch.diff"), os.path.join(d, "patch.orig.diff"))
        open(os.path.join(d, "patch.diff"), "w").write(diff)
        print(sid, "REBASED", len(diff.splitlines()), "lines")
        return 0
    finally:
        sh("git -C /repo reset -q --hard HEAD")


AS = None
if __name__ == "__main__":
    if "--as" in sys.argv:
        i = sys.argv.index("--as")
        AS = sys.argv[i + 1]
        del sys.argv[i:i + 2]
    if sys.argv[1] == "confirm":
        sys.exit(confirm(sys.argv[2], sys.argv[3]))
    elif sys.argv[1] == "rebase":
        sys.exit(rebase(sys.argv[2]))
    elif sys.argv[1] == "run":
        tier = "quick"
        args = sys.argv[2:]
        if "--tier" in args:
            i = args.index("--tier")
            tier = args[i + 1]
            args = args[:i] + args[i + 2:]
        run(args[0], args[1:], tier)
