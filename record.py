#!/usr/bin/env python3
"""record.py <prop> <repo-commit-message-file> <fixed-text> <design-row-text>

Commits the working-tree change in /repo as a "fix:" commit (message from the file), appends the
"fixed: property=<prop> <sha> <text>" line to known_findings.json and a row to the table in DESIGN.md §6.
Only a convenience for the author; no check depends on it."""
import json, subprocess, sys

prop, msgfile, fixed, row = sys.argv[1:5]
msg = open(msgfile).read()
assert msg.startswith("fix:"), "message must start with fix:"
subprocess.check_call(["git", "-C", "/repo", "add", "-A"])
subprocess.check_call(["git", "-C", "/repo", "commit", "-q", "-F", msgfile])
sha = subprocess.check_output(["git", "-C", "/repo", "rev-parse", "--short", "HEAD"], text=True).strip()
d = json.load(open("/verif/known_findings.json"))
d["fixed"].append(f"fixed: property={prop} {sha} {fixed}")
json.dump(d, open("/verif/known_findings.json", "w"), indent=1, ensure_ascii=False)
s = open("/verif/DESIGN.md").read()
marker = "\n### Known findings (genuine"
i = s.index(marker)
s = s[:i].rstrip("\n") + f"\n| {prop} | {row} | {sha} |\n" + s[i:]
open("/verif/DESIGN.md", "w").write(s)
print("recorded", sha)
