#!/usr/bin/env python3
"""Regenerates MANIFEST.json from parts.json and manifest_texts.json (run after editing either)."""
import json, os
V = os.path.dirname(os.path.abspath(__file__))
parts = json.load(open(os.path.join(V, "parts.json")))
texts = json.load(open(os.path.join(V, "manifest_texts.json")))
props = [json.loads(l) for l in open(os.path.join(V, "properties.jsonl"))]
hooks_commits = texts.get("hook_commits", [])
checks, na = [], []
for p in props:
    pid = p["id"]
    if pid in parts and pid in texts["checks"]:
        t = texts["checks"][pid]
        checks.append({
            "property_id": pid,
            "quick_cmd": "./check %s quick" % pid,
            "thorough_cmd": "./check %s thorough" % pid,
            "evidence_file": "/verif/evidence/%s.json" % pid,
            "replay_cmd_template": "./check %s quick --replay {path}" % pid,
            "engine": t.get("engine", "vh"),
            "level_claimed": {"category": "exploration", "text": t["level_text"], "design_ref": "DESIGN.md section 4, " + pid},
            "level_note": t["level_note"],
            "technique": t["technique"],
        })
    else:
        na.append({"property_id": pid, "reason": texts.get("not_applicable", {}).get(pid, "monitor not built yet in this tree; no claim is made")})
m = {
    "version": 1,
    "setup_cmd": "./setup.sh",
    "hooks": {
        "guard": "verif (Go build tag)",
        "enable": "go build -race -tags verif (harness module /verif/harness with replace github.com/fabiolb/fabio => /repo; fabio binary: cd /repo && go build -race -tags verif .)",
        "baseline_off_cmd": ". /verif/env.sh && cd /repo && go test -vet=off -count=1 -timeout 25m ./...",
        "source_commits": hooks_commits,
        "add_only": True,
    },
    "engines": [
        {"name": "vh", "path": "/verif/harness/cmd/vh", "serves_properties": sorted(parts.keys()),
         "kind_free_text": "Go monitor binary (race-detector build, plus a plain checkptr build for volume on sequential differential parts): in-process monitors with reference models, porcupine history checks, and process-level monitors that drive the real fabio binary against a fake Consul agent and instrumented upstreams"},
        {"name": "check", "path": "/verif/check", "serves_properties": sorted(parts.keys()),
         "kind_free_text": "driver: rebuilds from /repo, runs parts, collects race reports, merges evidence, matches known findings"},
    ],
    "checks": checks,
    "not_applicable": na,
    "notes": texts.get("notes", ""),
}
json.dump(m, open(os.path.join(V, "MANIFEST.json"), "w"), indent=1)
print("checks:", [c["property_id"] for c in checks], "not_applicable:", [n["property_id"] for n in na])
