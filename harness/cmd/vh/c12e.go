package main

import (
	"bufio"
	"context"
	"crypto/sha1"
	"encoding/base64"
	"fmt"
	"google.golang.org/grpc"
	"google.golang.org/grpc/credentials/insecure"
	"google.golang.org/grpc/metadata"
	"io"
	"net"
	"net/netip"
	"os"
	"path/filepath"
	"strings"
	"sync"
	"sync/atomic"
	"time"

	"verif/harness/internal/fabioproc"
	"verif/harness/internal/rawhttp"
)

func init() { register("c12-enforce", "C12", c12Enforce) }

type c12Route struct {
	Host  string
	Kind  string // allow | deny | "" (no rule)
	Items []c12Item
	Auth  string // "", "basic1", "nosuch"
}

func c12Enforce(c *ctx) {
	c.R.Rule = "the real binary with http (IPv4+IPv6), tcp and tcp+sni listeners; routes with allow/deny rules over sub-ranges of 127.0.0.0/8 and ::1 (incl. an unparsable rule), basic auth backed by a generated htpasswd file and a route naming an undefined scheme; clients bind different loopback source addresses and send X-Forwarded-For chains and right/wrong/absent/malformed credentials. Refused => 403/401 (TCP: closed) and the upstream untouched; admitted => normal proxying. evaluations = requests/connections; non-trivial = refused request, or admitted one on a route with a rule; distinct by (route, source, xff, credentials)"
	up, err := rawhttp.NewUpstream("127.0.0.1:0")
	if err != nil {
		c.R.Inconcl("upstream: %v", err)
		return
	}
	defer up.Close()
	eln, _ := net.Listen("tcp", "127.0.0.1:0")
	defer eln.Close()
	var echoConns atomic.Int64
	go func() {
		for {
			ec, err := eln.Accept()
			if err != nil {
				return
			}
			echoConns.Add(1)
			go func() { defer ec.Close(); io.Copy(ec, ec) }()
		}
	}()
	dir := filepath.Join(c.Dir, "c12e")
	os.MkdirAll(dir, 0o755)
	h := sha1.Sum([]byte("s3cret"))
	os.WriteFile(filepath.Join(dir, "ht"), []byte("alice:{SHA}"+base64.StdEncoding.EncodeToString(h[:])+"\nbob:plainpw\n"), 0o600)
	httpA, http6 := fmt.Sprintf("127.0.0.1:%d", freePort()), fmt.Sprintf("[::1]:%d", freePort())
	tcpAllow, tcpDeny, sniA := fmt.Sprintf("127.0.0.1:%d", freePort()), fmt.Sprintf("127.0.0.1:%d", freePort()), fmt.Sprintf("127.0.0.1:%d", freePort())
	tcpAuth := fmt.Sprintf("127.0.0.1:%d", freePort())
	rg, err := newRig(c, "acl", []string{"-proxy.addr", fmt.Sprintf("%s,%s,%s;proto=tcp,%s;proto=tcp,%s;proto=tcp+sni,%s;proto=tcp", httpA, http6, tcpAllow, tcpDeny, sniA, tcpAuth),
		"-proxy.auth", "name=basic1;type=basic;file=" + filepath.Join(dir, "ht") + ";realm=verif", "-log.level", "WARN"})
	if err != nil {
		c.R.Inconcl("cannot start fabio: %v", err)
		return
	}
	defer rg.close()
	mk := func(texts ...string) []c12Item {
		var out []c12Item
		for _, t := range texts {
			it := c12Item{Text: t}
			v := strings.TrimPrefix(t, "ip:")
			if strings.Contains(v, "/") {
				if p, err := netip.ParsePrefix(v); err == nil {
					it.Good, it.Pfx = true, p.Masked().String()
				}
			} else if a, err := netip.ParseAddr(v); err == nil {
				it.Good, it.Pfx = true, netip.PrefixFrom(a, a.BitLen()).String()
			}
			out = append(out, it)
		}
		return out
	}
	routes := []c12Route{
		{Host: "allow1.test", Kind: "allow", Items: mk("ip:127.0.0.0/30")},
		{Host: "allow2.test", Kind: "allow", Items: mk("ip:127.9.0.0/16", "ip:::1")},
		{Host: "deny1.test", Kind: "deny", Items: mk("ip:127.9.8.0/24")},
		{Host: "deny2.test", Kind: "deny", Items: mk("ip:127.0.0.1", "ip:::1/128")},
		{Host: "bad.test", Kind: "allow", Items: mk("ip:127.0.0.0/33")},
		{Host: "bad2.test", Kind: "deny", Items: mk("ip:127.5.5.5/40", "ip:127.9.8.7")},
		{Host: "open.test"},
		{Host: "auth.test", Auth: "basic1"},
		{Host: "authx.test", Auth: "nosuch"},
		{Host: "both.test", Kind: "allow", Items: mk("ip:127.0.0.0/8", "ip:::1"), Auth: "basic1"},
	}
	var lines []string
	for _, rt := range routes {
		var opts []string
		if rt.Kind != "" {
			var ts []string
			for _, it := range rt.Items {
				ts = append(ts, it.Text)
			}
			opts = append(opts, rt.Kind+"="+strings.Join(ts, ","))
		}
		if rt.Auth != "" {
			opts = append(opts, "auth="+rt.Auth)
		}
		l := fmt.Sprintf("route add %s %s/ http://%s/", strings.Split(rt.Host, ".")[0], rt.Host, up.Addr())
		if len(opts) > 0 {
			l += ` opts "` + strings.Join(opts, " ") + `"`
		}
		lines = append(lines, l)
	}
	_, pa, _ := net.SplitHostPort(tcpAllow)
	_, pd, _ := net.SplitHostPort(tcpDeny)
	tcpAllowItems, tcpDenyItems, sniItems := mk("ip:127.9.0.0/16"), mk("ip:127.9.8.7", "ip:127.5.0.0/16"), mk("ip:127.0.0.1/32")
	lines = append(lines,
		fmt.Sprintf("route add tcpallow :%s tcp://%s opts \"proto=tcp allow=ip:127.9.0.0/16\"", pa, eln.Addr()),
		fmt.Sprintf("route add tcpdeny :%s tcp://%s opts \"proto=tcp deny=ip:127.9.8.7,ip:127.5.0.0/16\"", pd, eln.Addr()),
		fmt.Sprintf("route add sniacl aclsni.test/ tcp://%s opts \"proto=tcp allow=ip:127.0.0.1/32\"", eln.Addr()),
		fmt.Sprintf("route add tcpauth :%s tcp://%s opts \"proto=tcp auth=basic1\"", strings.Split(tcpAuth, ":")[1], eln.Addr()))
	rg.setManual(strings.Join(lines, "\n"))
	if err := rg.barrier(); err != nil {
		c.R.Inconcl("barrier: %v", err)
		return
	}
	for _, a := range []string{httpA, http6, tcpAllow, tcpDeny, sniA} {
		if !fabioproc.WaitListening(a, 20*time.Second) {
			c.R.Inconcl("listener %s did not come up", a)
			return
		}
	}
	time.Sleep(300 * time.Millisecond)
	echoBase := echoConns.Load() // the readiness probes above were admitted connections of the harness itself
	n := c.scale(c.pick(2500, 50000))
	var seq, admittedTCP atomic.Int64
	var wg sync.WaitGroup
	hello := c09Hello("aclsni.test")
	for g := 0; g < 12; g++ {
		wg.Add(1)
		go func(g int) {
			defer wg.Done()
			r := c.rng(int64(1200 + g))
			for i := g; i < n; i += 12 {
				if r.Intn(6) == 0 {
					// ---- TCP / SNI ----
					kind := choose(r, []string{"tcpallow", "tcpdeny", "sni"})
					local := choose(r, []string{"127.0.0.1", "127.9.8.7", "127.5.5.5", "127.9.1.1"})
					addr, items, allowKind := tcpAllow, tcpAllowItems, true
					switch kind {
					case "tcpdeny":
						addr, items, allowKind = tcpDeny, tcpDenyItems, false
					case "sni":
						addr, items = sniA, sniItems
					}
					in := c12In(items, netip.MustParseAddr(local))
					refused := (allowKind && !in) || (!allowKind && in)
					before := echoConns.Load()
					d := &net.Dialer{LocalAddr: &net.TCPAddr{IP: net.ParseIP(local)}, Timeout: 5 * time.Second}
					conn, err := d.Dial("tcp", addr)
					c.R.Eval(1)
					if err != nil {
						c.R.Violate("c12e:tcp-connect-failed", fmt.Sprintf("%s from %s: %v", kind, local, err), nil)
						continue
					}
					msg := fmt.Sprintf("hello-%d-%d\n", g, i)
					if kind == "sni" {
						conn.Write(hello)
					}
					conn.Write([]byte(msg))
					conn.SetReadDeadline(time.Now().Add(5 * time.Second))
					br := bufio.NewReader(conn)
					var got string
					var rerr error
					if kind == "sni" {
						echo := make([]byte, len(hello))
						_, rerr = io.ReadFull(br, echo)
					}
					if rerr == nil {
						got, rerr = br.ReadString('\n')
					}
					conn.Close()
					vin := map[string]any{"listener": kind, "source": local}
					c.R.Nontrivial(fmt.Sprintf("%s/%s", kind, local))
					if refused {
						if got != "" || rerr == nil {
							c.R.Violate("c12e:tcp-refused-peer-served:"+kind, fmt.Sprintf("%s: peer %s must be refused but got %q", kind, local, got), vin)
						} else if ne, ok := rerr.(net.Error); ok && ne.Timeout() {
							c.R.Violate("c12e:tcp-refused-peer-not-closed:"+kind, fmt.Sprintf("%s: peer %s must be refused but the connection stayed open", kind, local), vin)
						}
						// the upstream must not have been contacted for this connection: checked in aggregate below
						_ = before
					} else if admittedTCP.Add(1); got != msg {
						c.R.Violate("c12e:tcp-admitted-peer-refused:"+kind, fmt.Sprintf("%s: peer %s is admitted by the rule but got %q (%v)", kind, local, got, rerr), vin)
					}
					continue
				}
				// ---- HTTP ----
				rt := choose(r, routes)
				via, local := httpA, choose(r, []string{"127.0.0.1", "127.9.8.7", "127.5.5.5", "127.0.0.2"})
				if r.Intn(5) == 0 {
					via, local = http6, "::1"
				}
				var xff []string
				for k := r.Intn(3); k > 0; k-- {
					var parts []string
					for m := 1 + r.Intn(2); m > 0; m-- {
						parts = append(parts, choose(r, []string{"127.0.0.1", "127.9.8.7", "127.0.0.3", "10.0.0.1", "::1", "127.9.200.1", "unknown"}))
					}
					xff = append(xff, strings.Join(parts, choose(r, []string{", ", ","})))
				}
				if r.Intn(10) == 0 {
					// a long chain of hops: every element counts, wherever it stands
					nh := choose(r, []int{31, 32, 33, 40, 64, 120})
					parts := make([]string, nh)
					pad := choose(r, []string{"127.0.0.1", "127.9.8.7", "127.0.0.2"})
					for k := range parts {
						parts[k] = pad
					}
					parts[choose(r, []int{nh - 1, nh - 2, 0, r.Intn(nh)})] = choose(r, []string{"127.0.0.1", "127.9.8.7", "127.0.0.3", "10.0.0.1", "::1", "127.9.200.1"})
					xff = append(xff, strings.Join(parts, ", "))
				}
				cred := choose(r, []string{"", "", "alice:s3cret", "bob:plainpw", "alice:wrong", "eve:s3cret", "malformed"})
				id := fmt.Sprintf("acl-%d", seq.Add(1))
				var b strings.Builder
				fmt.Fprintf(&b, "GET /x HTTP/1.1\r\nHost: %s\r\nX-Verif-Id: %s\r\nConnection: close\r\n", rt.Host, id)
				for _, x := range xff {
					fmt.Fprintf(&b, "X-Forwarded-For: %s\r\n", x)
				}
				switch cred {
				case "":
				case "malformed":
					b.WriteString("Authorization: Basic !!!notbase64\r\n")
				default:
					fmt.Fprintf(&b, "Authorization: Basic %s\r\n", base64.StdEncoding.EncodeToString([]byte(cred)))
				}
				b.WriteString("\r\n")
				up.SetScript(id, &rawhttp.Script{Status: 200, Framing: "length", Body: []byte("served " + id), Headers: []rawhttp.Header{{Name: "Content-Type", Value: "text/plain"}}})
				resp := rawhttp.Do(rawhttp.Dial{Addr: via, Local: local, Timeout: 20 * time.Second}, []byte(b.String()), "GET")
				contacted := up.Take(id) != nil
				c.R.Eval(1)
				vin := map[string]any{"route": rt.Host, "source": local, "xff": xff, "credentials": cred}
				if resp.Err != nil {
					c.R.Violate("c12e:request-failed", fmt.Sprintf("%v: %v", vin, resp.Err), vin)
					continue
				}
				// reference decision
				addrs := []netip.Addr{netip.MustParseAddr(local)}
				for _, line := range xff {
					for _, p := range strings.Split(line, ",") {
						if a, err := netip.ParseAddr(strings.TrimSpace(p)); err == nil {
							addrs = append(addrs, a)
						}
					}
				}
				aclRefused := false
				for _, a := range addrs {
					in := c12In(rt.Items, a)
					if (rt.Kind == "allow" && !in) || (rt.Kind == "deny" && in) {
						aclRefused = true
					}
				}
				authOK := rt.Auth == "" || (rt.Auth == "basic1" && (cred == "alice:s3cret" || cred == "bob:plainpw"))
				if aclRefused || rt.Kind != "" || rt.Auth != "" {
					c.R.Nontrivial(fmt.Sprintf("%s|%s|%v|%s", rt.Host, local, xff, cred))
				}
				switch {
				case aclRefused:
					if resp.Status != 403 || contacted {
						c.R.Violate("c12e:http-refused-peer-served:"+rt.Kind, fmt.Sprintf("route %s (%s %v): peer %s xff %q must be refused; got status %d, upstream contacted=%v", rt.Host, rt.Kind, itemTexts(rt.Items), local, xff, resp.Status, contacted), vin)
					}
				case !authOK:
					if resp.Status != 401 || contacted {
						c.R.Violate("c12e:unauthenticated-request-served:"+rt.Auth, fmt.Sprintf("route %s (auth %s): credentials %q must be rejected; got status %d, upstream contacted=%v", rt.Host, rt.Auth, cred, resp.Status, contacted), vin)
					} else if cred == "" && rt.Auth == "basic1" && len(resp.Get("Www-Authenticate")) == 0 {
						c.R.Violate("c12e:no-challenge", fmt.Sprintf("route %s: 401 without WWW-Authenticate", rt.Host), vin)
					}
				default:
					if resp.Status != 200 || string(resp.Body) != "served "+id || !contacted {
						c.R.Violate("c12e:admitted-request-refused", fmt.Sprintf("route %s: peer %s xff %q credentials %q is admitted but got status %d %.40q", rt.Host, local, xff, cred, resp.Status, resp.Body), vin)
					}
				}
				if c.R.WantSample() && aclRefused {
					c.R.Sample(map[string]any{"route": rt.Host, "rule": rt.Kind + "=" + strings.Join(itemTexts(rt.Items), ","), "source": local, "xff": xff, "status": resp.Status, "upstream_contacted": contacted})
				}
			}
		}(g)
	}
	wg.Wait()
	c12NoSchemes(c, up)
	c12GRPC(c)
	c.R.SetCounter("tcp_upstream_connections", echoConns.Load())
	c.R.SetCounter("tcp_admitted_connections", admittedTCP.Load())
	// conservation: every upstream connection belongs to an admitted client connection
	if echoConns.Load()-echoBase > admittedTCP.Load() {
		c.R.Violate("c12e:tcp-upstream-contacted-for-refused-peer", fmt.Sprintf("the TCP upstream accepted %d connections but only %d client connections were admitted by the rules", echoConns.Load()-echoBase, admittedTCP.Load()), nil)
	}
	// a TCP connection cannot present credentials: a route that asks for them is closed to the TCP proxies, be it a tcp
	// route with auth= or an HTTP route with auth= reached through the tcp+sni listener by its server name
	for i, tcase := range []struct{ what, addr, sni string }{{"tcp route with auth=basic1", tcpAuth, ""}, {"http route auth.test (auth=basic1) through the tcp+sni listener", sniA, "auth.test"}, {"tcp route with auth=basic1", tcpAuth, ""}} {
		before, hitsBefore := echoConns.Load(), up.Hits.Load()
		cn, err := net.DialTimeout("tcp", tcase.addr, 5*time.Second)
		if err != nil {
			c.R.Violate("c12e:tcp-connect-failed", fmt.Sprintf("%s: %v", tcase.what, err), nil)
			break
		}
		cn.SetDeadline(time.Now().Add(3 * time.Second))
		if tcase.sni != "" {
			cn.Write(c09Hello(tcase.sni))
		}
		fmt.Fprintf(cn, "GET /secret HTTP/1.1\r\nHost: auth.test\r\nX-Verif-Id: tcpauth-%d\r\nConnection: close\r\n\r\n", i)
		buf := make([]byte, 256)
		n, _ := io.ReadAtLeast(cn, buf, 1)
		cn.Close()
		time.Sleep(50 * time.Millisecond)
		c.R.Eval(1)
		c.R.Nontrivial(fmt.Sprintf("tcp-auth|%s|%d", tcase.what, i))
		if n > 0 || echoConns.Load() > before || up.Hits.Load() > hitsBefore {
			c.R.Violate("c12e:tcp-connection-forwarded-despite-auth", fmt.Sprintf("%s: the connection was tunnelled (client read %d bytes, tcp upstream connections +%d, http upstream connections +%d) although no credentials can have been accepted", tcase.what, n, echoConns.Load()-before, up.Hits.Load()-hitsBefore), nil)
			break
		}
	}
}

func itemTexts(items []c12Item) []string {
	var out []string
	for _, it := range items {
		out = append(out, it.Text)
	}
	return out
}

// c12NoSchemes: a second fabio without any -proxy.auth: a route that names a scheme names an unknown one there and
// must reject everything.
func c12NoSchemes(c *ctx, up *rawhttp.Upstream) {
	addr := fmt.Sprintf("127.0.0.1:%d", freePort())
	rg, err := newRig(c, "noauth", []string{"-proxy.addr", addr, "-log.level", "WARN"})
	if err != nil {
		c.R.Inconcl("cannot start the second fabio: %v", err)
		return
	}
	defer rg.close()
	rg.setManual(fmt.Sprintf("route add guarded guarded.test/ http://%s/ opts \"auth=basic1\"\nroute add free free.test/ http://%s/", up.Addr(), up.Addr()))
	if err := rg.barrier(); err != nil {
		c.R.Inconcl("barrier: %v", err)
		return
	}
	if !fabioproc.WaitListening(addr, 20*time.Second) {
		c.R.Inconcl("listener %s did not come up", addr)
		return
	}
	for i, cred := range []string{"", "alice:s3cret", "bob:plainpw", "x:y", "", "alice:s3cret"} {
		for _, host := range []string{"guarded.test", "free.test"} {
			id := fmt.Sprintf("noauth-%d-%s", i, host)
			raw := fmt.Sprintf("GET /x HTTP/1.1\r\nHost: %s\r\nX-Verif-Id: %s\r\nConnection: close\r\n", host, id)
			if cred != "" {
				raw += "Authorization: Basic " + base64.StdEncoding.EncodeToString([]byte(cred)) + "\r\n"
			}
			up.SetScript(id, &rawhttp.Script{Status: 200, Framing: "length", Body: []byte("served " + id)})
			resp := rawhttp.Do(rawhttp.Dial{Addr: addr, Timeout: 20 * time.Second}, []byte(raw+"\r\n"), "GET")
			contacted := up.Take(id) != nil
			c.R.Eval(1)
			c.R.Nontrivial("noauth|" + host + "|" + cred)
			vin := map[string]any{"route": host, "credentials": cred, "instance": "no -proxy.auth"}
			switch {
			case resp.Err != nil:
				c.R.Violate("c12e:request-failed", fmt.Sprintf("%v: %v", vin, resp.Err), vin)
			case host == "guarded.test" && (resp.Status != 401 || contacted):
				c.R.Violate("c12e:unauthenticated-request-served:no-schemes-configured", fmt.Sprintf("fabio without any auth scheme, route with auth=basic1, credentials %q: status %d, upstream contacted=%v; want 401 and no contact", cred, resp.Status, contacted), vin)
			case host == "free.test" && (resp.Status != 200 || !contacted):
				c.R.Violate("c12e:admitted-request-refused", fmt.Sprintf("fabio without any auth scheme, route without auth: status %d", resp.Status), vin)
			}
		}
	}
}

// c12GRPC: access rules and authentication on routes served by the gRPC listener: a call from a peer the rule refuses,
// or to a route whose auth scheme is unknown, must fail and the backend must not be contacted; an admitted call is served.
func c12GRPC(c *ctx) {
	var scripts sync.Map
	b, err := newC16Backend("acl", &scripts)
	if err != nil {
		c.R.Inconcl("grpc backend: %v", err)
		return
	}
	defer b.srv.Stop()
	addr := fmt.Sprintf("127.0.0.1:%d", freePort())
	gdir := filepath.Join(c.Dir, "c12g")
	os.MkdirAll(gdir, 0o755)
	gh := sha1.Sum([]byte("s3cret"))
	os.WriteFile(filepath.Join(gdir, "ht"), []byte("alice:{SHA}"+base64.StdEncoding.EncodeToString(gh[:])+"\n"), 0o600)
	rg, err := newRig(c, "aclgrpc", []string{"-proxy.addr", addr + ";proto=grpc", "-proxy.auth", "name=basic1;type=basic;file=" + filepath.Join(gdir, "ht") + ";realm=verif", "-log.level", "WARN"})
	if err != nil {
		c.R.Inconcl("cannot start the gRPC fabio: %v", err)
		return
	}
	defer rg.close()
	up := fmt.Sprintf("grpc://127.0.0.1:%d", b.port())
	rg.setManual(strings.Join([]string{
		fmt.Sprintf("route add open /pkg.Open %s opts \"proto=grpc\"", up),
		fmt.Sprintf("route add allowed /pkg.Allowed %s opts \"proto=grpc allow=ip:127.0.0.0/8\"", up),
		fmt.Sprintf("route add allowonly10 /pkg.Allow10 %s opts \"proto=grpc allow=ip:10.0.0.0/8\"", up),
		fmt.Sprintf("route add denylo /pkg.DenyLo %s opts \"proto=grpc deny=ip:127.0.0.0/8\"", up),
		fmt.Sprintf("route add authx /pkg.AuthX %s opts \"proto=grpc auth=nosuch\"", up),
		fmt.Sprintf("route add authb /pkg.AuthB %s opts \"proto=grpc auth=basic1\"", up),
	}, "\n"))
	if err := rg.barrier(); err != nil {
		c.R.Inconcl("barrier: %v", err)
		return
	}
	if !fabioproc.WaitListening(addr, 20*time.Second) {
		c.R.Inconcl("grpc listener did not come up")
		return
	}
	cc, err := grpc.NewClient(addr, grpc.WithTransportCredentials(insecure.NewCredentials()))
	if err != nil {
		c.R.Inconcl("grpc client: %v", err)
		return
	}
	defer cc.Close()
	basic := func(u, p string) []string {
		return []string{"authorization", "Basic " + base64.StdEncoding.EncodeToString([]byte(u+":"+p))}
	}
	for i, tc := range []struct {
		method string
		admit  bool
		why    string
		md     []string
	}{{"/pkg.Open/Do", true, "no rule", nil}, {"/pkg.Allowed/Do", true, "allow=ip:127.0.0.0/8, peer 127.0.0.1", nil}, {"/pkg.Allow10/Do", false, "allow=ip:10.0.0.0/8, peer 127.0.0.1", nil},
		{"/pkg.DenyLo/Do", false, "deny=ip:127.0.0.0/8, peer 127.0.0.1", nil}, {"/pkg.AuthX/Do", false, "auth=nosuch (unknown scheme)", nil}, {"/pkg.Allow10/Do", false, "allow=ip:10.0.0.0/8, peer 127.0.0.1", nil},
		{"/pkg.AuthX/Do", false, "auth=nosuch (unknown scheme), credentials sent", basic("alice", "s3cret")},
		{"/pkg.AuthB/Do", false, "auth=basic1, no credentials", nil}, {"/pkg.AuthB/Do", false, "auth=basic1, wrong password", basic("alice", "wrong")},
		{"/pkg.AuthB/Do", true, "auth=basic1, right credentials", basic("alice", "s3cret")}, {"/pkg.AuthB/Do", false, "auth=basic1, unknown user", basic("mallory", "s3cret")},
		{"/pkg.Allowed/Do", false, "allow=ip:127.0.0.0/8, peer 127.0.0.1 forwarding for 8.8.8.8", []string{"x-forwarded-for", "8.8.8.8"}},
		{"/pkg.Allowed/Do", true, "allow=ip:127.0.0.0/8, peer 127.0.0.1 forwarding for 127.0.0.9", []string{"x-forwarded-for", "127.0.0.9"}},
		{"/pkg.Open/Do", true, "no rule, credentials and a forwarding chain sent", append(basic("x", "y"), "x-forwarded-for", "8.8.8.8, 9.9.9.9")}} {
		id := fmt.Sprintf("aclg%d", i)
		scripts.Store(id, &c16Script{Msgs: [][]byte{{}}})
		before := b.calls.Load()
		ctx, cancel := context.WithTimeout(metadata.AppendToOutgoingContext(context.Background(), append([]string{"x-verif-id", id}, tc.md...)...), 10*time.Second)
		var reply []byte
		req := []byte{}
		err := cc.Invoke(ctx, tc.method, &req, &reply, grpc.ForceCodec(rawCodec{}))
		cancel()
		contacted := b.calls.Load() > before
		c.R.Eval(1)
		c.R.Nontrivial("grpc-acl|" + tc.method + "|" + tc.why)
		in := map[string]any{"method": tc.method, "rule": tc.why}
		switch {
		case tc.admit && (err != nil || !contacted):
			c.R.Violate("c12e:grpc-admitted-call-refused", fmt.Sprintf("gRPC call %s (%s) must be served: err %v, backend contacted %v", tc.method, tc.why, err, contacted), in)
		case !tc.admit && (err == nil || contacted):
			c.R.Violate("c12e:grpc-call-forwarded-despite-rule", fmt.Sprintf("gRPC call %s on a route with %s must be refused without contacting the backend: err %v, backend contacted %v", tc.method, tc.why, err, contacted), in)
		}
	}
}
