package main

import (
	"fmt"
	"strings"
	"sync"
	"sync/atomic"
	"time"

	"verif/harness/internal/fabioproc"
	"verif/harness/internal/fakeconsul"
	"verif/harness/internal/rawhttp"
)

func init() { register("c06-wire", "C06", c06Wire) }

// c06Wire: the real (race-built) binary under concurrent clients: unique redirect requests, and a weighted
// route whose three upstreams must receive their exact share of a whole number of round-robin cycles.
func c06Wire(c *ctx) {
	c.R.Rule = "the real race-built binary under 32 concurrent raw clients: requests to a weighted route (fixed weights 0.2/0.3/0.5, three upstreams) numbering a whole multiple of the ring length, interleaved with unique $path/$host redirect requests and requests to glob hosts; each upstream must have received exactly its share although the catalog changes every 20 ms meanwhile (an unrelated service comes and goes, fabio installs a new table each time), every redirect must carry its own request's path, fabio's log must show no race report. evaluations = requests; non-trivial = request sent while >=2 clients were active; distinct by request id (first 20000 counted)"
	ups := make([]*rawhttp.Upstream, 3)
	for i := range ups {
		u, err := rawhttp.NewUpstream("127.0.0.1:0")
		if err != nil {
			c.R.Inconcl("upstream: %v", err)
			return
		}
		defer u.Close()
		ups[i] = u
	}
	proxyAddr := fmt.Sprintf("127.0.0.1:%d", freePort())
	rg, err := newRig(c, "c06w", []string{"-proxy.addr", proxyAddr, "-proxy.strategy", "rr", "-glob.cache.size", "4", "-log.level", "WARN"})
	if err != nil {
		c.R.Inconcl("cannot start fabio: %v", err)
		return
	}
	defer rg.close()
	lines := []string{
		fmt.Sprintf("route add w w.test/ http://%s/ weight 0.2", ups[0].Addr()),
		fmt.Sprintf("route add w w.test/ http://%s/ weight 0.3", ups[1].Addr()),
		fmt.Sprintf("route add w w.test/ http://%s/ weight 0.5", ups[2].Addr()),
		"route add red red.test/ https://new.test$path opts \"redirect=301\"",
		"route add redh redh.test/ https://$host/moved$path opts \"redirect=302\"",
	}
	for i := 0; i < 12; i++ {
		lines = append(lines, fmt.Sprintf("route add g%d *.g%d.test/ http://%s/", i, i, ups[i%3].Addr()))
	}
	rg.setManual(strings.Join(lines, "\n"))
	if err := rg.barrier(); err != nil {
		c.R.Inconcl("barrier: %v", err)
		return
	}
	if !fabioproc.WaitListening(proxyAddr, 20*time.Second) {
		c.R.Inconcl("proxy listener did not come up")
		return
	}
	cycles := c.scale(c.pick(1, 10))
	total := int64(cycles) * 10000
	// meanwhile the catalog changes: an unrelated service comes and goes, every change makes fabio build and install a new
	// table (the weighted route is the same in all of them)
	stopChurn := make(chan struct{})
	var cwg sync.WaitGroup
	cwg.Add(1)
	go func() {
		defer cwg.Done()
		for n := 0; ; n++ {
			select {
			case <-stopChurn:
				return
			case <-time.After(20 * time.Millisecond):
			}
			rg.agent.Update(func(nodes map[string]*fakeconsul.Node, ins map[string]*fakeconsul.Instance) {
				nodes["n1"] = &fakeconsul.Node{Name: "n1", Address: "127.0.0.1"}
				if n%2 == 0 {
					ins["n1/churn"] = &fakeconsul.Instance{Node: "n1", ID: "churn", Name: "churn", Address: "127.0.0.1", Port: 9, Tags: []string{fmt.Sprintf("urlprefix-churn%d.test/", n)}, Checks: []fakeconsul.Check{{CheckID: "c", Status: "passing"}}}
				} else {
					delete(ins, "n1/churn")
				}
			})
			c.R.Count("catalog_changes_during_the_run", 1)
		}
	}()
	var next, active, nt atomic.Int64
	var wg sync.WaitGroup
	var bad atomic.Value
	for g := 0; g < 32; g++ {
		wg.Add(1)
		go func(g int) {
			defer wg.Done()
			for {
				i := next.Add(1)
				if i > total {
					return
				}
				if active.Add(1) >= 2 && nt.Add(1) <= 20000 {
					c.R.Nontrivial(fmt.Sprintf("req-%d", i))
				}
				// the weighted request
				raw := fmt.Sprintf("GET /g%d/i%d HTTP/1.1\r\nHost: w.test\r\nX-Verif-Id: w%d\r\nConnection: close\r\n\r\n", g, i, i)
				resp := rawhttp.Do(rawhttp.Dial{Addr: proxyAddr, Timeout: 30 * time.Second}, []byte(raw), "GET")
				c.R.Eval(1)
				if resp.Err != nil || resp.Status != 200 {
					bad.Store(fmt.Sprintf("weighted request %d failed: status %d err %v", i, resp.Status, resp.Err))
				}
				if i%4 == 0 {
					p := fmt.Sprintf("/g%d/i%d/%%2F", g, i)
					host, want := "red.test", "https://new.test"+p
					if i%8 == 0 {
						host, want = "redh.test", "https://redh.test/moved"+p
					}
					raw := fmt.Sprintf("GET %s HTTP/1.1\r\nHost: %s\r\nConnection: close\r\n\r\n", p, host)
					resp := rawhttp.Do(rawhttp.Dial{Addr: proxyAddr, Timeout: 30 * time.Second}, []byte(raw), "GET")
					c.R.Eval(1)
					if resp.Err != nil || len(resp.Get("Location")) != 1 || resp.Get("Location")[0] != want {
						c.R.Violate("c06w:redirect-crossed", fmt.Sprintf("request %s%s got status %d Location %q, want %q", host, p, resp.Status, resp.Get("Location"), want), nil)
					}
				}
				if i%16 == 0 {
					gi := int(i/16) % 12
					raw := fmt.Sprintf("GET /x HTTP/1.1\r\nHost: c%d.g%d.test\r\nX-Verif-Id: glob%d\r\nConnection: close\r\n\r\n", i, gi, i)
					resp := rawhttp.Do(rawhttp.Dial{Addr: proxyAddr, Timeout: 30 * time.Second}, []byte(raw), "GET")
					c.R.Eval(1)
					if resp.Err != nil || resp.Status != 200 || ups[gi%3].Take(fmt.Sprintf("glob%d", i)) == nil {
						c.R.Violate("c06w:glob-lookup-wrong", fmt.Sprintf("request for c%d.g%d.test: status %d err %v, not seen by the upstream of that route", i, gi, resp.Status, resp.Err), nil)
					}
				}
				active.Add(-1)
			}
		}(g)
	}
	wg.Wait()
	close(stopChurn)
	cwg.Wait()
	if s, _ := bad.Load().(string); s != "" {
		c.R.Violate("c06w:request-failed", s, nil)
		return
	}
	// exact share: count the weighted requests each upstream saw
	var got [3]int64
	for i := int64(1); i <= total; i++ {
		id := fmt.Sprintf("w%d", i)
		n := 0
		for k, u := range ups {
			if u.Take(id) != nil {
				got[k]++
				n++
			}
		}
		if n != 1 {
			c.R.Violate("c06w:request-seen-by-wrong-number-of-upstreams", fmt.Sprintf("weighted request %d was seen by %d upstreams", i, n), nil)
			return
		}
	}
	want := [3]int64{total * 2 / 10, total * 3 / 10, total * 5 / 10}
	c.R.SetCounter("weighted_requests", total)
	for k := range got {
		c.R.SetCounter(fmt.Sprintf("upstream%d_requests", k), got[k])
	}
	// whole cycles of a ring of exactly 10000 slots, the cursor carried from table to table: the share is exact
	tol := int64(0)
	for k := range got {
		if d := got[k] - want[k]; d > tol || d < -tol {
			c.R.Violate("c06w:rr-share-not-exact", fmt.Sprintf("after %d requests (%d full cycles of the ring) the upstreams saw %v, the shares are %v (tolerance %d)", total, cycles, got, want, tol), nil)
			break
		}
	}
	c.R.Sample(map[string]any{"weighted_requests": total, "per_upstream": got, "expected": want})
}
