package main

import (
	"bufio"
	"bytes"
	"crypto/tls"
	"encoding/binary"
	"fmt"
	"io"
	"math/rand"
	"net"
	"os"
	"path/filepath"
	"strings"
	"sync"
	"sync/atomic"
	"syscall"
	"time"
	"unsafe"

	"verif/harness/internal/fabioproc"
)

func init() { register("c09-tunnels", "C09", c09Tunnels) }

// deterministic byte streams: the byte at offset i of stream (seed) is known, so a
// missing, duplicated, reordered or altered byte is detected at its offset.
func c09Fill(buf []byte, seed uint64, off int64) {
	for i := range buf {
		p := uint64(off) + uint64(i)
		x := (p>>3 + 1) * 0x9E3779B97F4A7C15
		x ^= seed
		x ^= x >> 29
		x *= 0xBF58476D1CE4E5B9
		x ^= x >> 32
		buf[i] = byte(x >> (8 * (p & 7)))
	}
}

type c09Verifier struct {
	seed uint64
	off  int64
	bad  string
	tmp  []byte
}

func (v *c09Verifier) Write(p []byte) (int, error) {
	if v.bad == "" {
		if cap(v.tmp) < len(p) {
			v.tmp = make([]byte, len(p))
		}
		exp := v.tmp[:len(p)]
		c09Fill(exp, v.seed, v.off)
		if !bytes.Equal(exp, p) {
			for i := range p {
				if p[i] != exp[i] {
					v.bad = fmt.Sprintf("byte at stream offset %d is %#02x, expected %#02x", v.off+int64(i), p[i], exp[i])
					break
				}
			}
		}
	}
	v.off += int64(len(p))
	return len(p), nil
}

type c09Spec struct {
	ID        string
	Kind      string // tcp | tcp-pp | sni | sni-pp | dyn | ws
	C2U, U2C  int64
	SeedC     uint64
	SeedU     uint64
	WriteMax  int    // max client/upstream write size
	Pause     bool   // short pauses between writes
	SlowRead  bool   // receiver with a tiny buffer and slow reads
	Close     string // client-closes | upstream-closes-first | client-halfclose | upstream-halfclose
	HelloMode string // alone | split | coalesced (sni only)
	WS101     string // whole | split | piggyback (ws only)

	// filled by the upstream side
	mu          sync.Mutex
	upProxyLine string
	upHello     []byte
	upGot       int64
	upBad       string
	upErr       string
	upDone      chan struct{}
	upLocal     string
}

// c09UpgradeToken is the spelling of the (case-insensitive) websocket upgrade token a session uses; it follows
// the session's data seed so that the choice list of the generator is untouched.
func c09UpgradeToken(sp *c09Spec) string {
	return []string{"websocket", "WebSocket", "Websocket", "WEBSOCKET"}[sp.SeedC%4]
}

type c09Upstream struct {
	ln    net.Listener
	specs *sync.Map
	Conns atomic.Int64
}

const c09Prelude = 20 // "VC" + 16 hex + CRLF

func (u *c09Upstream) serve() {
	for {
		c, err := u.ln.Accept()
		if err != nil {
			return
		}
		u.Conns.Add(1)
		go u.handle(c)
	}
}

func c09Send(w io.Writer, n int64, seed uint64, startOff int64, max int, pause bool, r *rand.Rand) error {
	buf := make([]byte, max)
	off := int64(0)
	for off < n {
		sz := 1 + r.Intn(max)
		if int64(sz) > n-off {
			sz = int(n - off)
		}
		c09Fill(buf[:sz], seed, startOff+off)
		if _, err := w.Write(buf[:sz]); err != nil {
			return err
		}
		off += int64(sz)
		if pause && r.Intn(8) == 0 {
			time.Sleep(time.Duration(r.Intn(2000)) * time.Microsecond)
		}
	}
	return nil
}

func c09Recv(c net.Conn, v *c09Verifier, want int64, slow bool) error {
	buf := make([]byte, 64<<10)
	if slow {
		buf = make([]byte, 1500)
	}
	for want < 0 || v.off < want {
		n, err := c.Read(buf)
		if n > 0 {
			v.Write(buf[:n])
		}
		if err != nil {
			return err
		}
		if slow && v.off%7 == 0 {
			time.Sleep(200 * time.Microsecond)
		}
	}
	return nil
}

// progressConn gives every read and write its own 40s: a stream counts as stuck when it makes no progress for that long,
// however long the whole transfer takes (64 MiB in 100-byte writes with pauses is slow, not stuck).
type progressConn struct {
	net.Conn
}

func (p progressConn) Read(b []byte) (int, error) {
	p.Conn.SetReadDeadline(time.Now().Add(40 * time.Second))
	return p.Conn.Read(b)
}

func (p progressConn) Write(b []byte) (int, error) {
	p.Conn.SetWriteDeadline(time.Now().Add(40 * time.Second))
	return p.Conn.Write(b)
}

func (p progressConn) CloseWrite() error {
	if cw, ok := p.Conn.(interface{ CloseWrite() error }); ok {
		return cw.CloseWrite()
	}
	return p.Conn.Close()
}

func (u *c09Upstream) handle(c net.Conn) {
	defer c.Close()
	rawc := c
	c = progressConn{c}
	br := bufio.NewReaderSize(c, 128<<10)
	var proxyLine string
	var hello []byte
	if b, err := br.Peek(6); err == nil && string(b) == "PROXY " {
		l, err := br.ReadString('\n')
		if err != nil {
			return
		}
		proxyLine = l
	}
	b, err := br.Peek(4)
	if err != nil {
		return
	}
	wsID := ""
	switch {
	case b[0] == 0x16:
		hdr := make([]byte, 5)
		if _, err := io.ReadFull(br, hdr); err != nil {
			return
		}
		body := make([]byte, int(binary.BigEndian.Uint16(hdr[3:5])))
		if _, err := io.ReadFull(br, body); err != nil {
			return
		}
		hello = append(hdr, body...)
	case string(b) == "GET ":
		var head strings.Builder
		for {
			l, err := br.ReadString('\n')
			if err != nil {
				return
			}
			head.WriteString(l)
			if l == "\r\n" {
				break
			}
		}
		first := strings.SplitN(head.String(), "\r\n", 2)[0]
		f := strings.Fields(first)
		if len(f) >= 2 {
			wsID = strings.TrimPrefix(f[1], "/ws/")
		}
	}
	var sp *c09Spec
	if wsID != "" {
		v, ok := u.specs.Load(wsID)
		if !ok {
			return
		}
		sp = v.(*c09Spec)
		resp := "HTTP/1.1 101 Switching Protocols\r\nUpgrade: websocket\r\nConnection: Upgrade\r\nSec-WebSocket-Accept: s3pPLMBiTxaQ9kYGzzhZRbK+xOo=\r\n\r\n"
		switch sp.WS101 {
		case "split":
			c.Write([]byte(resp[:40]))
			time.Sleep(3 * time.Millisecond)
			c.Write([]byte(resp[40:]))
		case "split-early":
			// the first segment ends inside the status line
			cut := []int{1, 5, 9, 11}[int(sp.SeedU%4)]
			c.Write([]byte(resp[:cut]))
			time.Sleep(5 * time.Millisecond)
			c.Write([]byte(resp[cut:]))
		default:
			c.Write([]byte(resp))
		}
	}
	pre := make([]byte, c09Prelude)
	if _, err := io.ReadFull(br, pre); err != nil {
		return
	}
	id := string(pre[2:18])
	if sp == nil {
		v, ok := u.specs.Load(id)
		if !ok {
			return
		}
		sp = v.(*c09Spec)
	}
	sp.mu.Lock()
	sp.upProxyLine, sp.upHello, sp.upLocal = proxyLine, hello, c.RemoteAddr().String()
	sp.mu.Unlock()
	defer close(sp.upDone)
	if string(pre[:2]) != "VC" || id != sp.ID {
		sp.mu.Lock()
		sp.upBad = fmt.Sprintf("prelude is %q, expected VC%s", pre, sp.ID)
		sp.mu.Unlock()
		return
	}
	r := rand.New(rand.NewSource(int64(sp.SeedU)))
	ver := &c09Verifier{seed: sp.SeedC}
	tc, _ := c.(interface{ CloseWrite() error })
	if rb, ok := rawc.(*net.TCPConn); ok && sp.SlowRead {
		rb.SetReadBuffer(4096)
	}
	rd := &bufReaderConn{Conn: c, br: br}
	finish := func(err error) {
		sp.mu.Lock()
		sp.upGot, sp.upBad = ver.off, ver.bad
		if err != nil && err != io.EOF {
			sp.upErr = err.Error()
		}
		sp.mu.Unlock()
	}
	switch sp.Close {
	case "client-halfclose":
		// read the whole request until the client's FIN, then reply
		err := c09Recv(rd, ver, -1, sp.SlowRead)
		finish(err)
		c09Send(c, sp.U2C, sp.SeedU, 0, sp.WriteMax, sp.Pause, r)
	case "upstream-halfclose":
		c09Send(c, sp.U2C, sp.SeedU, 0, sp.WriteMax, sp.Pause, r)
		if tc != nil {
			tc.CloseWrite()
		}
		err := c09Recv(rd, ver, -1, sp.SlowRead)
		finish(err)
	case "upstream-closes-first":
		done := make(chan error, 1)
		go func() { done <- c09Send(c, sp.U2C, sp.SeedU, 0, sp.WriteMax, sp.Pause, r) }()
		err := c09Recv(rd, ver, sp.C2U, sp.SlowRead) // read everything the client sends: nothing is left unread when we close
		<-done
		finish(err)
	default: // client-closes
		done := make(chan error, 1)
		go func() { done <- c09Send(c, sp.U2C, sp.SeedU, 0, sp.WriteMax, sp.Pause, r) }()
		err := c09Recv(rd, ver, -1, sp.SlowRead)
		<-done
		finish(err)
	}
}

type bufReaderConn struct {
	net.Conn
	br *bufio.Reader
}

func (b *bufReaderConn) Read(p []byte) (int, error) { return b.br.Read(p) }

type c09Rig struct {
	rg                                                                *rig
	up, upTLS                                                         *c09Upstream
	specs                                                             sync.Map
	tcpA, tcpPP, sniA, dynA, dynPPA, wsA, tcpTLS, tcpWT, tcpLPP, mixA string
	// listeners (plain and TLS terminating) in front of a sink: an upstream that ends its own stream as soon as it has
	// accepted a connection and then reads what the client sends
	sinkA, sinkTLS string
	// a listener in front of an upstream that answers and closes without reading what the client goes on sending
	rejA      string
	rejLn     net.Listener
	rejU2C    int64
	rejClosed sync.Map // session seed -> chan struct{}, closed when the rejecter has closed its connection
	sinkLn    net.Listener
	sinkGot   sync.Map // session id -> []byte received after the prelude
}

func newC09Rig(c *ctx) (*c09Rig, error) {
	r := &c09Rig{}
	ln, err := net.Listen("tcp", "127.0.0.1:0")
	if err != nil {
		return nil, err
	}
	r.up = &c09Upstream{ln: ln, specs: &r.specs}
	go r.up.serve()
	tcrt := c11Make("ws-up-cert.pem", "wss-upstream.test")
	tln, err := tls.Listen("tcp", "127.0.0.1:0", &tls.Config{Certificates: []tls.Certificate{tcrt.TLS}})
	if err != nil {
		return nil, err
	}
	r.upTLS = &c09Upstream{ln: tln, specs: &r.specs}
	go r.upTLS.serve()
	upAddr := ln.Addr().String()
	pt, pp, ps, pd, pw, dynPort, ptls := freePort(), freePort(), freePort(), freePort(), freePort(), freePort(), freePort()
	r.tcpTLS = fmt.Sprintf("127.0.0.1:%d", ptls)
	dynPP, plpp, pmix := freePort(), freePort(), freePort()
	r.dynPPA, r.tcpLPP, r.mixA = fmt.Sprintf("127.0.0.1:%d", dynPP), fmt.Sprintf("127.0.0.1:%d", plpp), fmt.Sprintf("127.0.0.1:%d", pmix)
	pwt := freePort()
	r.tcpWT = fmt.Sprintf("127.0.0.1:%d", pwt) // a listener with a write timeout and no read timeout
	certDir := filepath.Join(c.Dir, "c09cert")
	os.MkdirAll(certDir, 0o755)
	lcrt := c11Make("l-cert.pem", "tunnel.test")
	os.WriteFile(filepath.Join(certDir, "l-cert.pem"), lcrt.CertPEM, 0o644)
	os.WriteFile(filepath.Join(certDir, "l-key.pem"), lcrt.KeyPEM, 0o644)
	r.tcpA, r.tcpPP, r.sniA, r.wsA = fmt.Sprintf("127.0.0.1:%d", pt), fmt.Sprintf("127.0.0.1:%d", pp), fmt.Sprintf("127.0.0.1:%d", ps), fmt.Sprintf("127.0.0.1:%d", pw)
	r.dynA = fmt.Sprintf("127.0.0.1:%d", dynPort)
	sln, err := net.Listen("tcp", "127.0.0.1:0")
	if err != nil {
		return nil, err
	}
	r.sinkLn = sln
	go r.serveSink()
	rln, err := net.Listen("tcp", "127.0.0.1:0")
	if err != nil {
		return nil, err
	}
	r.rejLn, r.rejU2C = rln, 2<<20
	go r.serveRejecter()
	prej := freePort()
	r.rejA = fmt.Sprintf("127.0.0.1:%d", prej)
	psink, psinkTLS := freePort(), freePort()
	r.sinkA, r.sinkTLS = fmt.Sprintf("127.0.0.1:%d", psink), fmt.Sprintf("127.0.0.1:%d", psinkTLS)
	addr := fmt.Sprintf("%s;proto=tcp,%s;proto=tcp,%s;proto=tcp+sni,127.0.0.1:%d;proto=tcp-dynamic;refresh=1s,%s;proto=http,%s;proto=tcp;cs=cs1,%s;proto=tcp;wt=800ms,%s;proto=tcp;pxyproto=true,%s;proto=https+tcp+sni;cs=cs1,%s;proto=tcp,%s;proto=tcp;cs=cs1,%s;proto=tcp", r.tcpA, r.tcpPP, r.sniA, pd, r.wsA, r.tcpTLS, r.tcpWT, r.tcpLPP, r.mixA, r.sinkA, r.sinkTLS, r.rejA)
	rg, err := newRig(c, "tcp", []string{"-proxy.addr", addr, "-proxy.cs", "cs=cs1;type=path;cert=" + certDir, "-log.level", "WARN"})
	if err != nil {
		ln.Close()
		return nil, err
	}
	r.rg = rg
	lines := []string{
		fmt.Sprintf("route add tcpsvc :%d tcp://%s opts \"proto=tcp\"", pt, upAddr),
		fmt.Sprintf("route add tcppp :%d tcp://%s opts \"proto=tcp pxyproto=true\"", pp, upAddr),
		fmt.Sprintf("route add snisvc sni.test/ tcp://%s opts \"proto=tcp\"", upAddr),
		fmt.Sprintf("route add snipp snipp.test/ tcp://%s opts \"proto=tcp pxyproto=true\"", upAddr),
		fmt.Sprintf("route add dynsvc 127.0.0.1:%d tcp://%s", dynPort, upAddr),
		fmt.Sprintf("route add tcptls :%d tcp://%s opts \"proto=tcp\"", ptls, upAddr),
		fmt.Sprintf("route add tcpwt :%d tcp://%s opts \"proto=tcp\"", pwt, upAddr),
		fmt.Sprintf("route add tcplpp :%d tcp://%s opts \"proto=tcp\"", plpp, upAddr),
		fmt.Sprintf("route add mixsvc mix.test/ tcp://%s opts \"proto=tcp\"", upAddr),
		fmt.Sprintf("route add dynpp 127.0.0.1:%d tcp://%s opts \"pxyproto=true\"", dynPP, upAddr),
		fmt.Sprintf("route add wssvc ws.test/ http://%s/", upAddr),
		fmt.Sprintf("route add sink :%d tcp://%s opts \"proto=tcp\"", psink, sln.Addr()),
		fmt.Sprintf("route add sinktls :%d tcp://%s opts \"proto=tcp\"", psinkTLS, sln.Addr()),
		fmt.Sprintf("route add rejecter :%d tcp://%s opts \"proto=tcp\"", prej, rln.Addr()),
		fmt.Sprintf("route add wsssvc wss.test/ https://%s/ opts \"tlsskipverify=true\"", tln.Addr().String()),
	}
	rg.setManual(strings.Join(lines, "\n"))
	if err := rg.barrier(); err != nil {
		r.close()
		return nil, err
	}
	for _, a := range []string{r.tcpA, r.tcpPP, r.sniA, r.wsA, r.dynA, r.dynPPA, r.tcpTLS, r.tcpWT, r.tcpLPP, r.mixA, r.sinkA, r.sinkTLS, r.rejA} {
		if !fabioproc.WaitListening(a, 30*time.Second) {
			r.close()
			return nil, fmt.Errorf("listener %s did not come up\n%s", a, rg.proc.LogTail(1500))
		}
	}
	// the tunnels behind the two TLS-terminating tcp listeners see a connection that ends without a byte (the upstreams
	// drop it: no prelude); the https side of the mixed listener answers a name no tcp route has
	if err := waitTLSServing("warmup.invalid", r.tcpTLS, r.sinkTLS, r.mixA); err != nil {
		r.close()
		return nil, err
	}
	return r, nil
}

// serveSink: the upstream has nothing to say: it ends its stream at once (FIN) and reads the client's to the end.
func (r *c09Rig) serveSink() {
	for {
		cn, err := r.sinkLn.Accept()
		if err != nil {
			return
		}
		go func() {
			defer cn.Close()
			cn.(*net.TCPConn).CloseWrite()
			all, _ := io.ReadAll(progressConn{cn})
			if len(all) >= c09Prelude && string(all[:2]) == "VC" {
				r.sinkGot.Store(string(all[2:18]), all[c09Prelude:])
			}
		}()
	}
}

// serveRejecter: an upstream that answers and goes: it reads the 20-byte prelude, sends its whole reply, waits until its
// peer's TCP stack has acknowledged every byte of it (SIOCOUTQ == 0) and closes (nothing unread, nothing unsent). What
// the client sends after that cannot be delivered any more.
func (r *c09Rig) serveRejecter() {
	for {
		cn, err := r.rejLn.Accept()
		if err != nil {
			return
		}
		go func() {
			defer cn.Close()
			pc := progressConn{cn}
			pre := make([]byte, c09Prelude)
			if _, err := io.ReadFull(pc, pre); err != nil || string(pre[:2]) != "VC" {
				return
			}
			var seed uint64
			fmt.Sscanf(string(pre[2:18]), "%016x", &seed)
			if c09Send(pc, r.rejU2C, seed, 0, 64<<10, false, rand.New(rand.NewSource(1))) != nil {
				return
			}
			raw, err := cn.(*net.TCPConn).SyscallConn()
			if err != nil {
				return
			}
			for k := 0; k < 4000; k++ { // up to 20s
				q := 1
				raw.Control(func(fd uintptr) {
					var v int32
					if _, _, e := syscall.Syscall(syscall.SYS_IOCTL, fd, 0x5411 /* SIOCOUTQ */, uintptr(unsafe.Pointer(&v))); e == 0 {
						q = int(v)
					}
				})
				if q == 0 {
					break
				}
				time.Sleep(5 * time.Millisecond)
			}
			cn.Close() // nothing unread, nothing unsent: an ordinary close, FIN after the data
			if ch, ok := r.rejClosed.Load(seed); ok {
				close(ch.(chan struct{}))
			}
		}()
	}
}

// c09EarlyReply: the upstream finishes first while the client is still sending and slow to read: "whichever side finishes
// first has had all of its data delivered" - the client must receive the whole reply before its connection ends.
func c09EarlyReply(c *ctx, rg *c09Rig, n int) {
	for i := 0; i < n; i++ {
		seed := uint64(0xabcd0000+i) | uint64(c.Seed)<<40
		in := map[string]any{"session": i, "reply_bytes": rg.rejU2C}
		c.R.Eval(1)
		c.R.Nontrivial(fmt.Sprintf("tcp/upstream-answers-and-closes-while-client-still-sends/%d", i))
		// the first session is a control: the same client against the same upstream without fabio in between. Only when a
		// direct connection delivers the whole reply is the scenario a fair one.
		target, direct := rg.rejA, i == 0
		if direct {
			target = rg.rejLn.Addr().String()
		}
		cn, err := net.DialTimeout("tcp", target, 10*time.Second)
		if err != nil {
			c.R.Violate("c09:connect-failed:tcp-early-reply", err.Error(), in)
			return
		}
		pc := progressConn{cn}
		upClosed := make(chan struct{})
		rg.rejClosed.Store(seed, upClosed)
		fmt.Fprintf(pc, "VC%016x\r\n", seed)
		stop := make(chan struct{})
		var sent atomic.Int64
		go func() { // the client has not finished: once the upstream has gone it sends a byte every millisecond
			select {
			case <-upClosed:
			case <-stop:
				return
			}
			for {
				select {
				case <-stop:
					return
				case <-time.After(time.Millisecond):
				}
				if _, err := pc.Write([]byte("x")); err != nil {
					return
				}
				sent.Add(1)
			}
		}()
		ver := &c09Verifier{seed: seed}
		buf := make([]byte, 8<<10)
		var rerr error
		for {
			var k int
			k, rerr = pc.Read(buf)
			if k > 0 {
				ver.Write(buf[:k])
			}
			if rerr != nil {
				break
			}
			time.Sleep(time.Millisecond) // slow to read: 8 KiB per millisecond
		}
		close(stop)
		cn.Close()
		if direct {
			if ver.bad != "" || ver.off != rg.rejU2C {
				c.R.Count("early_reply_control_incomplete", 1)
				c.R.Note("early-reply control: a direct connection delivered %d of %d bytes (%v): scenario not evaluated", ver.off, rg.rejU2C, rerr)
				return
			}
			c.R.Count("early_reply_control_complete", 1)
			continue
		}
		if ver.bad != "" {
			c.R.Violate("c09:upstream-to-client-corrupt:tcp-early-reply", ver.bad, in)
		} else if ver.off != rg.rejU2C {
			c.R.Violate("c09:reply-truncated-when-upstream-finishes-while-client-still-sends:tcp", fmt.Sprintf("the upstream sent %d bytes, saw all of them acknowledged and closed; the client, slow to read and still sending (%d bytes so far), received %d bytes and then %v", rg.rejU2C, sent.Load(), ver.off, rerr), in)
		}
	}
	c.R.Count("early_reply_sessions", int64(n))
}

// c09Sink: the upstream finishes first, before the client has sent anything (on the TLS terminating listener: before or
// while the client shakes hands). The client's stream must still arrive whole.
func c09Sink(c *ctx, rg *c09Rig, n int) {
	r := c.rng(977)
	for i := 0; i < n; i++ {
		kind, addr := "tcp-sink", rg.sinkA
		if i%2 == 1 {
			kind, addr = "tcp-tls-sink", rg.sinkTLS
		}
		id := fmt.Sprintf("%016x", uint64(0xfeed0000+i)|uint64(c.Seed)<<40)
		size := int64(choose(r, []int{0, 1, 500, 70000, 300000}))
		seed := r.Uint64()
		wait := choose(r, []time.Duration{0, 0, 30 * time.Millisecond, 300 * time.Millisecond})
		class := fmt.Sprintf("%s/%dB/wait=%v/upstream-finishes-before-the-client-starts", kind, size, wait)
		in := map[string]any{"kind": kind, "bytes": size, "client_waits": wait.String()}
		c.R.Eval(1)
		c.R.Nontrivial(class)
		cn, err := net.DialTimeout("tcp", addr, 10*time.Second)
		if err != nil {
			c.R.Violate("c09:connect-failed:"+kind, err.Error(), in)
			return
		}
		time.Sleep(wait) // the upstream's FIN reaches fabio meanwhile
		var w net.Conn = progressConn{cn}
		var cw interface{ CloseWrite() error } = cn.(*net.TCPConn)
		if kind == "tcp-tls-sink" {
			tc := tls.Client(w, &tls.Config{InsecureSkipVerify: true})
			if err := tc.Handshake(); err != nil {
				c.R.Violate("c09:client-cut-off-when-upstream-finishes-first:"+kind, fmt.Sprintf("the upstream ended its (empty) stream at once; the client's TLS handshake with the listener then failed: %v [%s]", err, class), in)
				cn.Close()
				continue
			}
			w, cw = tc, tc
		}
		w.Write([]byte("VC" + id + "\r\n"))
		serr := c09Send(w, size, seed, 0, 16<<10, false, rand.New(rand.NewSource(int64(seed))))
		cw.CloseWrite()
		rest, _ := io.ReadAll(w)
		cn.Close()
		var got []byte
		for k := 0; k < 100; k++ {
			if v, ok := rg.sinkGot.LoadAndDelete(id); ok {
				got = v.([]byte)
				break
			}
			if k == 99 {
				c.R.Violate("c09:client-to-upstream-incomplete:"+kind+":upstream-finishes-before-the-client-starts", fmt.Sprintf("the upstream ended its stream first and kept reading; it never saw the client's stream of %d bytes (client send error: %v) [%s]", size, serr, class), in)
			}
			time.Sleep(50 * time.Millisecond)
		}
		if got == nil {
			continue
		}
		ver := &c09Verifier{seed: seed}
		ver.Write(got)
		if ver.bad != "" || ver.off != size || len(rest) != 0 {
			c.R.Violate("c09:client-to-upstream-incomplete:"+kind+":upstream-finishes-before-the-client-starts", fmt.Sprintf("upstream received %d of %d bytes (%s), client received %d bytes from an upstream that sent none [%s]", ver.off, size, ver.bad, len(rest), class), in)
		}
	}
	c.R.Count("sink_sessions", int64(n))
}

func (r *c09Rig) close() {
	if r.rg != nil {
		r.rg.close()
	}
	r.up.ln.Close()
	if r.sinkLn != nil {
		r.sinkLn.Close()
	}
	if r.rejLn != nil {
		r.rejLn.Close()
	}
	if r.upTLS != nil {
		r.upTLS.ln.Close()
	}
}

func c09Hello(sni string) []byte {
	rec, _ := captureHello(&tls.Config{ServerName: sni, InsecureSkipVerify: true})
	return rec
}

func c09Tunnels(c *ctx) {
	c.R.Rule = "the real fabio binary with tcp, tcp (PROXY protocol route), tcp+sni, tcp-dynamic and http (websocket) listeners between raw-socket clients and a raw-socket upstream; each direction carries a deterministic stream whose byte at every offset is known; write sizes 1B-64KiB, pauses, slow receivers with 4KiB buffers, both directions at once; genuine ClientHello sent alone / split / in one segment with following bytes; 101 answers whole / split / with piggy-backed data; close orders: client closes after draining, upstream closes first, client half-close, upstream half-close. evaluations = connections; non-trivial = connection with >=64KiB verified per direction or a coalesced/split hello or a half-close; distinct by (kind, segmentation class, close order, hello/101 mode)"
	rg, err := newC09Rig(c)
	if err != nil {
		c.R.Inconcl("cannot start the TCP rig: %v", err)
		return
	}
	defer rg.close()
	hello := map[string][]byte{"sni.test": c09Hello("sni.test"), "snipp.test": c09Hello("snipp.test"), "mix.test": c09Hello("mix.test")}
	if len(hello["sni.test"]) == 0 {
		c.R.Inconcl("cannot capture a ClientHello")
		return
	}
	n := c.scale(c.pick(400, 8000))
	var seq atomic.Int64
	var bytesC2U, bytesU2C atomic.Int64
	var wg sync.WaitGroup
	const G = 24
	for g := 0; g < G; g++ {
		wg.Add(1)
		go func(g int) {
			defer wg.Done()
			r := c.rng(int64(900 + g))
			for i := g; i < n; i += G {
				sp := &c09Spec{ID: fmt.Sprintf("%016x", uint64(seq.Add(1))|uint64(c.Seed)<<40), upDone: make(chan struct{})}
				sp.Kind = choose(r, []string{"tcp", "tcp-pp", "sni", "sni", "sni-pp", "dyn", "ws", "ws", "wss", "tcp-tls", "tcp-tls", "tcp-wt", "dyn-pp", "tcp-lpp", "mix"})
				sp.SeedC, sp.SeedU = r.Uint64(), r.Uint64()
				size := func() int64 {
					switch x := r.Intn(12); {
					case x == 0:
						return 0
					case x < 4:
						return int64(1 + r.Intn(200))
					case x < 9:
						return int64(64<<10 + r.Intn(200<<10))
					case x == 9:
						return int64(1<<20 + r.Intn(3<<20))
					default:
						if c.thorough() && r.Intn(20) == 0 {
							return int64(16<<20 + r.Intn(48<<20))
						}
						return int64(1000 + r.Intn(60000))
					}
				}
				sp.C2U, sp.U2C = size(), size()
				sp.WriteMax = choose(r, []int{7, 100, 1400, 4096, 16 << 10, 64 << 10})
				if sp.WriteMax < 100 && sp.C2U+sp.U2C > 300000 {
					sp.WriteMax = 1400
				}
				if sp.WriteMax < 4096 && sp.C2U+sp.U2C > 4<<20 {
					sp.WriteMax = 16 << 10 // tens of megabytes in 100-byte writes only measure the harness
				}
				sp.Pause = r.Intn(4) == 0
				sp.SlowRead = r.Intn(5) == 0 && sp.C2U+sp.U2C < 1<<20
				sp.Close = choose(r, []string{"client-closes", "client-closes", "upstream-closes-first", "client-halfclose", "upstream-halfclose"})
				if sp.Kind == "tcp-wt" {
					// a write timeout must not become a limit on how long the client may stay quiet: small streams (no write
					// ever blocks), and in the upstream-halfclose order the client waits 1.8s before it sends
					sp.SlowRead = false
					if sp.U2C > 256<<10 {
						sp.U2C = 256 << 10
					}
					if sp.C2U > 256<<10 {
						sp.C2U = 256 << 10
					}
					if r.Intn(2) == 0 {
						sp.Close = "upstream-halfclose"
					}
				}
				sp.HelloMode = choose(r, []string{"alone", "split", "coalesced", "coalesced"})
				sp.WS101 = choose(r, []string{"whole", "split", "split-early"})
				rg.specs.Store(sp.ID, sp)
				c09Conn(c, rg, sp, hello, r, &bytesC2U, &bytesU2C)
				rg.specs.Delete(sp.ID)
			}
		}(g)
	}
	wg.Wait()
	c09Sink(c, rg, c.scale(c.pick(24, 200)))
	c09EarlyReply(c, rg, 1+c.scale(c.pick(4, 30)))
	c.R.SetCounter("bytes_verified_client_to_upstream", bytesC2U.Load())
	c.R.SetCounter("bytes_verified_upstream_to_client", bytesU2C.Load())
	c.R.SetCounter("upstream_connections", rg.up.Conns.Load())
}

func c09Conn(c *ctx, rg *c09Rig, sp *c09Spec, hello map[string][]byte, r *rand.Rand, bc, bu *atomic.Int64) {
	c.R.Eval(1)
	addr := map[string]string{"tcp": rg.tcpA, "tcp-pp": rg.tcpPP, "sni": rg.sniA, "sni-pp": rg.sniA, "dyn": rg.dynA, "ws": rg.wsA, "wss": rg.wsA, "tcp-tls": rg.tcpTLS, "tcp-wt": rg.tcpWT, "dyn-pp": rg.dynPPA, "tcp-lpp": rg.tcpLPP, "mix": rg.mixA}[sp.Kind]
	class := fmt.Sprintf("%s/w%d/pause=%v/slow=%v/%s", sp.Kind, sp.WriteMax, sp.Pause, sp.SlowRead, sp.Close)
	if c09IsSNI(sp.Kind) {
		class += "/hello-" + sp.HelloMode
	}
	if strings.HasPrefix(sp.Kind, "ws") {
		class += "/101-" + sp.WS101
		if sp.HelloMode == "coalesced" && sp.WS101 == "whole" {
			class += "/bytes-sent-with-the-upgrade-request"
		}
	}
	in := map[string]any{"Spec": fmt.Sprintf("%+v", struct {
		ID, Kind, Close, HelloMode, WS101 string
		C2U, U2C                          int64
		WriteMax                          int
		Pause, SlowRead                   bool
	}{sp.ID, sp.Kind, sp.Close, sp.HelloMode, sp.WS101, sp.C2U, sp.U2C, sp.WriteMax, sp.Pause, sp.SlowRead})}
	if strings.HasPrefix(sp.Kind, "ws") {
		in["UpgradeToken"] = c09UpgradeToken(sp)
		c.R.Count("ws_upgrade_token_"+c09UpgradeToken(sp), 1)
	}
	viol := func(sig, detail string) {
		c.R.Violate("c09:"+sig+":"+sp.Kind+":"+sp.Close, detail+" ["+class+"]", in)
	}
	conn, err := net.DialTimeout("tcp", addr, 10*time.Second)
	if err != nil {
		viol("connect-failed", err.Error())
		return
	}
	defer conn.Close()
	rawTCP := conn.(*net.TCPConn)
	rawTCP.SetNoDelay(true)
	if sp.SlowRead {
		rawTCP.SetReadBuffer(4096)
	}
	conn = progressConn{conn}
	var tc interface{ CloseWrite() error } = progressConn{rawTCP}
	if sp.Kind == "tcp-tls" {
		// fabio terminates TLS on this listener; a TLS 1.2 client sends its last record and close_notify back to back
		tconn := tls.Client(conn, &tls.Config{InsecureSkipVerify: true, MaxVersion: choose(r, []uint16{tls.VersionTLS12, tls.VersionTLS12, tls.VersionTLS13})})
		if err := tconn.Handshake(); err != nil {
			viol("tls-handshake-failed", err.Error())
			return
		}
		conn = tconn
		tc = tconn
	}
	prelude := []byte("VC" + sp.ID + "\r\n")
	var sniHello []byte
	switch sp.Kind {
	case "tcp-lpp":
		// the listener accepts an optional PROXY protocol header from the client side; it is consumed by fabio
		if sp.HelloMode == "alone" || sp.HelloMode == "split" {
			fmt.Fprintf(conn, "PROXY TCP4 192.0.2.7 198.51.100.9 4711 443\r\n")
		}
		conn.Write(prelude)
	case "sni", "sni-pp", "mix":
		name := "sni.test"
		if sp.Kind == "sni-pp" {
			name = "snipp.test"
		}
		if sp.Kind == "mix" {
			name = "mix.test"
		}
		sniHello = hello[name]
		switch sp.HelloMode {
		case "alone":
			conn.Write(sniHello)
			time.Sleep(5 * time.Millisecond)
			conn.Write(prelude)
		case "split":
			cut := choose(r, []int{1, 3, 5, 6, 8, 9, 10, 40, len(sniHello) / 2, len(sniHello) - 1})
			conn.Write(sniHello[:cut])
			time.Sleep(2 * time.Millisecond)
			conn.Write(sniHello[cut:])
			time.Sleep(2 * time.Millisecond)
			conn.Write(prelude)
		default: // the hello and what follows it in one segment
			conn.Write(append(append([]byte{}, sniHello...), prelude...))
		}
	case "ws", "wss":
		upg := fmt.Sprintf("GET /ws/%s HTTP/1.1\r\nHost: "+sp.Kind+".test\r\nUpgrade: "+c09UpgradeToken(sp)+"\r\nConnection: Upgrade\r\nSec-WebSocket-Key: dGhlIHNhbXBsZSBub25jZQ==\r\nSec-WebSocket-Version: 13\r\n\r\n", sp.ID)
		// an eager client sends the start of its stream in one segment with the upgrade request (like bytes that follow a
		// ClientHello): they are the first bytes of the tunnel
		eager := sp.HelloMode == "coalesced" && sp.WS101 == "whole"
		if eager {
			conn.Write(append([]byte(upg), prelude...))
		} else {
			conn.Write([]byte(upg))
		}
		br := bufio.NewReader(conn)
		status, err := br.ReadString('\n')
		if err != nil || !strings.HasPrefix(status, "HTTP/1.1 101") {
			viol("ws-handshake", fmt.Sprintf("upgrade answer %q err %v", status, err))
			return
		}
		for {
			l, err := br.ReadString('\n')
			if err != nil {
				viol("ws-handshake", "reading 101 headers: "+err.Error())
				return
			}
			if l == "\r\n" {
				break
			}
		}
		if br.Buffered() > 0 {
			// bytes that followed the 101 belong to the upstream's stream
			conn = &bufReaderConn{Conn: conn, br: br}
		}
		if !eager {
			conn.Write(prelude)
		}
	default:
		conn.Write(prelude)
	}
	ver := &c09Verifier{seed: sp.SeedU}
	sendErr := make(chan error, 1)
	rs := rand.New(rand.NewSource(int64(sp.SeedC)))
	var recvErr error
	switch sp.Close {
	case "client-halfclose":
		err := c09Send(conn, sp.C2U, sp.SeedC, 0, sp.WriteMax, sp.Pause, rs)
		tc.CloseWrite()
		sendErr <- err
		recvErr = c09Recv(conn, ver, -1, sp.SlowRead)
	case "upstream-halfclose":
		recvErr = c09Recv(conn, ver, -1, sp.SlowRead) // until the upstream's FIN
		if sp.Kind == "tcp-wt" {
			time.Sleep(1800 * time.Millisecond) // quiet for longer than the listener's write timeout
		}
		sendErr <- c09Send(conn, sp.C2U, sp.SeedC, 0, sp.WriteMax, sp.Pause, rs)
		tc.CloseWrite()
	case "upstream-closes-first":
		go func() { sendErr <- c09Send(conn, sp.C2U, sp.SeedC, 0, sp.WriteMax, sp.Pause, rs) }()
		recvErr = c09Recv(conn, ver, -1, sp.SlowRead) // until EOF
	default:
		go func() { sendErr <- c09Send(conn, sp.C2U, sp.SeedC, 0, sp.WriteMax, sp.Pause, rs) }()
		recvErr = c09Recv(conn, ver, sp.U2C, sp.SlowRead)
	}
	serr := <-sendErr
	if sp.Close == "client-closes" {
		conn.Close()
	}
	select {
	case <-sp.upDone:
	case <-time.After(10 * time.Second):
	}
	if sp.Close != "client-closes" {
		conn.Close()
	}
	sp.mu.Lock()
	defer sp.mu.Unlock()
	bc.Add(sp.upGot)
	bu.Add(ver.off)
	if sp.C2U >= 64<<10 && sp.U2C >= 64<<10 || sp.HelloMode != "alone" && c09IsSNI(sp.Kind) || strings.Contains(sp.Close, "halfclose") {
		c.R.Nontrivial(class)
	}
	select {
	case <-sp.upDone:
	default:
		if sp.upLocal == "" {
			sig := "client-to-upstream-incomplete"
			if c09IsSNI(sp.Kind) && sp.HelloMode == "coalesced" {
				sig += ":bytes-sent-with-clienthello"
			}
			viol(sig, fmt.Sprintf("the upstream never received the first %d bytes of the client's stream (client send error: %v)", c09Prelude, serr))
			return
		}
	}
	// what the upstream saw before the stream
	if strings.HasSuffix(sp.Kind, "-pp") {
		cl := conn.LocalAddr().(*net.TCPAddr)
		sv, _ := net.ResolveTCPAddr("tcp", addr)
		want := fmt.Sprintf("PROXY TCP4 %s %s %d %d\r\n", cl.IP, sv.IP, cl.Port, sv.Port)
		if sp.upProxyLine != want {
			viol("proxy-line", fmt.Sprintf("upstream saw PROXY line %q, want %q", sp.upProxyLine, want))
			return
		}
	} else if sp.upProxyLine != "" {
		viol("proxy-line", fmt.Sprintf("upstream saw an unrequested PROXY line %q", sp.upProxyLine))
		return
	}
	if sniHello != nil && !bytes.Equal(sp.upHello, sniHello) {
		viol("clienthello-altered", fmt.Sprintf("upstream saw a ClientHello of %d bytes, the client sent %d", len(sp.upHello), len(sniHello)))
		return
	}
	if sp.upBad != "" {
		sig := "client-to-upstream-corrupt"
		if c09IsSNI(sp.Kind) && sp.HelloMode == "coalesced" {
			sig += ":bytes-sent-with-clienthello"
		}
		viol(sig, "upstream: "+sp.upBad)
		return
	}
	if ver.bad != "" {
		viol("upstream-to-client-corrupt", "client: "+ver.bad)
		return
	}
	if sp.upGot != sp.C2U {
		sig := "client-to-upstream-incomplete"
		if c09IsSNI(sp.Kind) && sp.HelloMode == "coalesced" {
			sig += ":bytes-sent-with-clienthello"
		}
		viol(sig, fmt.Sprintf("upstream received %d of the %d bytes the client sent (client send error: %v, upstream error: %q)", sp.upGot, sp.C2U, serr, sp.upErr))
		return
	}
	if ver.off != sp.U2C {
		viol("upstream-to-client-incomplete", fmt.Sprintf("client received %d of the %d bytes the upstream sent (receive error: %v)", ver.off, sp.U2C, recvErr))
		return
	}
	if c.R.WantSample() && (sp.HelloMode == "coalesced" || strings.Contains(sp.Close, "half")) {
		c.R.Sample(map[string]any{"class": class, "client_to_upstream_bytes": sp.upGot, "upstream_to_client_bytes": ver.off})
	}
}

// c09IsSNI: kinds whose stream starts with a ClientHello that fabio routes on and passes on.
func c09IsSNI(kind string) bool { return strings.HasPrefix(kind, "sni") || kind == "mix" }
