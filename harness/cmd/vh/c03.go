package main

import (
	"crypto/tls"
	"fmt"
	"math/rand"
	"net/http"
	"net/url"
	"strings"

	"github.com/fabiolb/fabio/route"

	"verif/harness/internal/refmodel"
)

func init() { register("c03-lookup", "C03", c03Lookup) }

var (
	c03HostPats = []string{"a.x.com", "b.x.com", "a.b.x.com", "x.com", "www.y.org", "y.org",
		"*.x.com", "*.b.x.com", "*.*.x.com", "*x.com", "a.*.com", "*.com", "*", "*.y.org", "a*.x.com",
		"a.x.com:8080", "*.x.com:8080", "x.com:8080", "",
		// written with the scheme's default port; wildcards by '?', class and alternatives; a pattern that is not well formed
		"a.x.com:80", "x.com:443", "b.x.com:80", "*.x.com:80", "*:80", "*:443", "*:8080", "a*:80", "?.x.com", "[ab].x.com", "{a,b}.x.com", "a.x.co?", "{x,ax}.com", "a.[w-y].com", "x.com{", "a.x.com{", "*.x.com{"}
	c03ReqHosts = []string{"a.x.com", "b.x.com", "a.b.x.com", "c.a.b.x.com", "x.com", "ax.com", "www.y.org", "y.org", "z.y.org", "q.net", "a.q.com", "",
		"a.com", "a..com", "com"} // a.com: too short for 'a.*.com' (prefix and suffix would have to overlap)
	c03Ports = []string{"", "", ":80", ":443", ":8080", ":9"}
	// the last three: letters whose lower-case form has another encoded length (U+0130, KELVIN SIGN U+212A) and a plain non-ASCII one
	c03Paths     = []string{"/", "/a", "/a/", "/a/b", "/a/b/c", "/ab", "/A/b", "/b", "/B", "/FOO/bar", "/foo", "/\u0130stanbul", "/\u212Aelvin/a", "/\u00dcber"}
	c03IPv6Hosts = []string{"[2001:db8::1]", "[2001:db8::1]:8080", "[::1]"} // literal names ('[' opens a class for the glob matcher)
	c03GlobPaths = []string{"/*", "/a*", "/a/*", "/a/b*", "/a/b/*", "/ab*", "/A/b*", "/b*", "/a/b/c", "/a/{", "/a{", "/{",
		// literal characters that sort below '*' and a '?' that sorts above the digits: the longer literal prefix still wins
		"/a/$meta", "/a/(d)/*", "/a/v?*", "/a/v1/u*", "/a/!x*"}
	c03ReqPaths = []string{"/a/$meta", "/a/(d)/x", "/a/v1/u/5", "/a/v2/x", "/a/!x/y", "/", "/a", "/a/", "/a/b", "/a/b/c", "/a/b/c/d", "/ab", "/abc", "/A/b", "/A/B", "/b", "/B/x", "/c", "/foo/bar", "/FOO/bar/x", "/Foo", "",
		"/istanbul/map", "/\u0130STANBUL", "/kelvin/a/b", "/Kelvin/a", "/\u212Aelvin/a/x", "/\u00fcber/x", "/\u00dcBER"}
)

type c03Case struct {
	Routes  []refmodel.LRoute
	Matcher string
	NoGlob  bool
	Reqs    []c03Req
}

type c03Req struct {
	Host string
	TLS  bool
	Path string
}

func genC03(r *rand.Rand) *c03Case {
	cs := &c03Case{Matcher: choose(r, []string{"prefix", "prefix", "iprefix", "glob"}), NoGlob: r.Intn(3) == 0}
	n := 1 + r.Intn(12)
	seen := map[string]bool{}
	for i := 0; i < n; i++ {
		h := choose(r, c03HostPats)
		if r.Intn(6) == 0 && (cs.NoGlob || r.Intn(2) == 0) {
			h = choose(r, c03IPv6Hosts) // with globbing on the brackets read as a class: the literal must still name itself
		}
		p := choose(r, c03Paths)
		if cs.Matcher == "glob" {
			p = choose(r, c03GlobPaths)
		}
		if seen[h+p] {
			continue
		}
		seen[h+p] = true
		cs.Routes = append(cs.Routes, refmodel.LRoute{ID: fmt.Sprintf("r%d", len(cs.Routes)), Host: h, Path: p})
	}
	for j := 0; j < 24; j++ {
		h := choose(r, c03ReqHosts)
		if r.Intn(6) == 0 && (cs.NoGlob || r.Intn(2) == 0) {
			h = choose(r, []string{"[2001:db8::1]", "[2001:DB8::1]", "[::1]"})
		}
		if h != "" {
			h = randCase(r, h) + choose(r, c03Ports)
		}
		cs.Reqs = append(cs.Reqs, c03Req{Host: h, TLS: r.Intn(3) == 0, Path: choose(r, c03ReqPaths)})
	}
	return cs
}

func (cs *c03Case) script(r *rand.Rand) string {
	var b strings.Builder
	for i, rt := range cs.Routes {
		h := rt.Host
		if r != nil && r.Intn(3) == 0 {
			h = randCase(r, h) // the config may spell hosts in any case
		}
		fmt.Fprintf(&b, "route add %s %s%s http://10.1.%d.%d:80/\n", rt.ID, h, rt.Path, i/256, i%256)
	}
	return b.String()
}

func c03Lookup(c *ctx) {
	n := c.scale(c.pick(60000, 2000000))
	c.R.Rule = "random tables (exact/wildcard/host-less/port hosts, nested paths) x 24 requests (any letter case, default/other/no port, TLS or not) for prefix/iprefix/glob matchers with host globbing on and off, fresh and tiny glob caches; Lookup result must belong to a winner of the brute-force reference selection. evaluations = (table,request) pairs; non-trivial = pair with >=2 candidate routes; distinct by (table,request,matcher,glob switch)"
	pick := route.Picker["rr"]
	run := func(cs *c03Case, r *rand.Rand, i int) {
		script := cs.script(r)
		in := map[string]any{"Case": cs, "Script": script}
		var t route.Table
		var err error
		if p := safely(func() { t, err = newTable(script) }); p != "" || err != nil {
			c.R.Violate("c03:newtable", fmt.Sprintf("panic=%q err=%v", p, err), in)
			return
		}
		match := route.Matcher[cs.Matcher]
		cfg := refmodel.LookupCfg{Matcher: cs.Matcher, GlobDisabled: cs.NoGlob}
		caches := []*route.GlobCache{route.NewGlobCache(1000), route.NewGlobCache(2)}
		for qi, q := range cs.Reqs {
			c.R.Eval(1)
			cands, winners := refmodel.Select(cfg, cs.Routes, q.Host, q.TLS, q.Path)
			if len(cands) >= 2 {
				c.R.Nontrivial(fmt.Sprintf("%s|%v|%s|%v", script, cs.NoGlob, cs.Matcher, q))
			}
			for ci, gc := range caches {
				req := &http.Request{Host: q.Host, URL: &url.URL{Path: q.Path}, Header: http.Header{}}
				if q.TLS {
					req.TLS = &tls.ConnectionState{}
				}
				var got *route.Target
				if p := safely(func() { got = t.Lookup(req, "", pick, match, gc, cs.NoGlob) }); p != "" {
					c.R.Violate("c03:panic-lookup", p, map[string]any{"Case": cs, "Script": script, "Req": q})
					return
				}
				vin := map[string]any{"Case": cs, "Script": script, "Req": q, "Cache": ci}
				switch {
				case got == nil && len(cands) > 0:
					c.R.Violate(c03Sig("not-routed", cs, q), fmt.Sprintf("request %+v has candidates %v but was not routed", q, ids(cands)), vin)
					return
				case got != nil && len(cands) == 0:
					c.R.Violate(c03Sig("routed-without-match", cs, q), fmt.Sprintf("request %+v routed to %s although no route matches", q, got.Service), vin)
					return
				case got != nil:
					ok, isCand := false, false
					for _, w := range winners {
						ok = ok || w.ID == got.Service
					}
					for _, w := range cands {
						isCand = isCand || w.ID == got.Service
					}
					if !isCand {
						c.R.Violate(c03Sig("non-matching-route", cs, q), fmt.Sprintf("request %+v routed to %s which does not match it; candidates %v", q, c03Desc(cs, got.Service), ids(cands)), vin)
						return
					}
					if !ok {
						c.R.Violate(c03Sig("less-specific", cs, q), fmt.Sprintf("request %+v routed to %s; most specific is %v (candidates %v)", q, c03Desc(cs, got.Service), descs(winners), descs(cands)), vin)
						return
					}
				}
			}
			if qi < 3 && len(cands) >= 2 && c.R.WantSample() {
				c.R.Sample(map[string]any{"routes": descs(cs.Routes), "matcher": cs.Matcher, "glob_disabled": cs.NoGlob, "request": q, "winners": descs(winners)})
			}
		}
		// LookupHost: soundness and completeness on exact hosts
		for _, rt := range cs.Routes {
			if rt.Host == "" || strings.ContainsAny(rt.Host, "*?[{") || strings.HasSuffix(rt.Host, ":80") || strings.HasSuffix(rt.Host, ":443") {
				continue
			}
			name := rt.Host
			if r != nil {
				name = randCase(r, name)
			}
			var got *route.Target
			if p := safely(func() { got = t.LookupHost(name, pick) }); p != "" {
				c.R.Violate("c03:panic-lookuphost", p, in)
				return
			}
			// LookupHost matches path "/" by prefix: a route for the exact host whose path is a prefix of "/" must be found
			has := false
			for _, r2 := range cs.Routes {
				if r2.Host == rt.Host && strings.HasPrefix("/", r2.Path) {
					has = true
				}
			}
			c.R.Count("lookuphost_calls", 1)
			if has && got == nil {
				c.R.Violate("c03:lookuphost-miss", fmt.Sprintf("LookupHost(%q) found nothing although %s/ is routed", name, rt.Host), in)
				return
			}
			if got != nil {
				if d := c03Route(cs, got.Service); d == nil || d.Host != strings.ToLower(name) {
					c.R.Violate("c03:lookuphost-wrong-host", fmt.Sprintf("LookupHost(%q) returned %s", name, c03Desc(cs, got.Service)), in)
					return
				}
			}
		}
	}
	if c.Replay != "" {
		var in struct{ Case c03Case }
		loadReplay(c, &in)
		run(&in.Case, nil, 0)
		return
	}
	parallel(c, n, func(r *rand.Rand, i int) { run(genC03(r), r, i) })
}

func c03Sig(kind string, cs *c03Case, q c03Req) string {
	s := "c03:" + kind + ":" + cs.Matcher
	if cs.NoGlob {
		s += ":noglob"
		if q.Host != strings.ToLower(q.Host) {
			s += ":uppercase-host"
		}
	}
	return s
}

func c03Route(cs *c03Case, id string) *refmodel.LRoute {
	for i := range cs.Routes {
		if cs.Routes[i].ID == id {
			return &cs.Routes[i]
		}
	}
	return nil
}

func c03Desc(cs *c03Case, id string) string {
	if r := c03Route(cs, id); r != nil {
		return r.Host + r.Path
	}
	return "?" + id
}

func ids(rs []refmodel.LRoute) []string { return descs(rs) }

func descs(rs []refmodel.LRoute) []string {
	var out []string
	for _, r := range rs {
		out = append(out, r.Host+r.Path)
	}
	return out
}
