package main

import (
	"bytes"
	"fmt"
	"math"
	"math/rand"
	"sort"
	"strings"

	"github.com/fabiolb/fabio/route"

	"verif/harness/internal/refmodel"
)

func randCase(r *rand.Rand, s string) string {
	b := []byte(s)
	for i, c := range b {
		if c >= 'a' && c <= 'z' && r.Intn(2) == 0 {
			b[i] = c - 32
		}
	}
	return string(b)
}

func choose[T any](r *rand.Rand, xs []T) T { return xs[r.Intn(len(xs))] }

func subset(r *rand.Rand, xs []string, max int) []string {
	n := r.Intn(max + 1)
	if n == 0 {
		return nil
	}
	p := r.Perm(len(xs))
	var out []string
	for i := 0; i < n && i < len(xs); i++ {
		out = append(out, xs[p[i]])
	}
	return out
}

// flattenReal projects a real table onto exported fields only.
func flattenReal(t route.Table) (out []refmodel.FlatTarget, problems []string) {
	for h, rs := range t {
		if len(rs) == 0 {
			problems = append(problems, fmt.Sprintf("host %q has no routes", h))
		}
		seen := map[string]bool{}
		for _, r := range rs {
			if r.Host != h {
				problems = append(problems, fmt.Sprintf("route host %q filed under %q", r.Host, h))
			}
			if seen[r.Path] {
				problems = append(problems, fmt.Sprintf("duplicate route %q%q", h, r.Path))
			}
			seen[r.Path] = true
			if len(r.Targets) == 0 {
				problems = append(problems, fmt.Sprintf("route %q%q has no targets", h, r.Path))
			}
			for _, x := range r.Targets {
				out = append(out, refmodel.FlatTarget{Host: h, Path: r.Path, Service: x.Service, Dst: x.URL.String(),
					Fixed: x.FixedWeight, Weight: x.Weight, Tags: x.Tags, Opts: x.Opts})
			}
		}
	}
	refmodel.SortFlat(out)
	return
}

func eqStrs(a, b []string) bool {
	if len(a) != len(b) {
		return false
	}
	for i := range a {
		if a[i] != b[i] {
			return false
		}
	}
	return true
}

func eqOpts(a, b map[string]string) bool {
	if len(a) != len(b) {
		return false
	}
	for k, v := range a {
		if w, ok := b[k]; !ok || w != v {
			return false
		}
	}
	return true
}

// diffFlat compares two projections; tolF/tolW are the tolerances for the fixed and effective weight.
func diffFlat(want, got []refmodel.FlatTarget, tolF, tolW float64) string {
	if len(want) != len(got) {
		return fmt.Sprintf("target count: want %d got %d\nwant: %s\ngot:  %s", len(want), len(got), flatStr(want), flatStr(got))
	}
	for i := range want {
		w, g := want[i], got[i]
		if w.Host != g.Host || w.Path != g.Path || w.Service != g.Service || w.Dst != g.Dst ||
			!eqStrs(w.Tags, g.Tags) || !eqOpts(w.Opts, g.Opts) ||
			math.Abs(math.Max(w.Fixed, 0)-math.Max(g.Fixed, 0)) > tolF || math.Abs(w.Weight-g.Weight) > tolW {
			return fmt.Sprintf("target %d differs:\nwant: %s\ngot:  %s", i, flatStr([]refmodel.FlatTarget{w}), flatStr([]refmodel.FlatTarget{g}))
		}
	}
	return ""
}

func flatStr(fs []refmodel.FlatTarget) string {
	var b strings.Builder
	for _, f := range fs {
		var ks []string
		for k, v := range f.Opts {
			ks = append(ks, k+"="+v)
		}
		sort.Strings(ks)
		fmt.Fprintf(&b, "[%s%s %s %s fixed=%g w=%.6f tags=%v opts=%v] ", f.Host, f.Path, f.Service, f.Dst, f.Fixed, f.Weight, f.Tags, ks)
	}
	return b.String()
}

func newTable(text string) (route.Table, error) {
	return route.NewTable(bytes.NewBufferString(text))
}

// safely runs f and converts a panic into an error string.
func safely(f func()) (panicked string) {
	defer func() {
		if e := recover(); e != nil {
			panicked = fmt.Sprint(e)
		}
	}()
	f()
	return ""
}
