package main

import (
	"encoding/json"
	"fmt"
	"math/rand"
	"net/http"
	"net/url"
	"os"
	"runtime"
	"sync"
	"sync/atomic"
)

// parallel runs n cases over GOMAXPROCS workers, each with its own PRNG stream
// derived from the seed and the worker index; case lists depend on the seed only
// (cases are dealt to workers round-robin by index).
func parallel(c *ctx, n int, f func(r *rand.Rand, i int)) {
	w := runtime.GOMAXPROCS(0)
	if w > n {
		w = n
	}
	if w < 1 {
		w = 1
	}
	var wg sync.WaitGroup
	for k := 0; k < w; k++ {
		wg.Add(1)
		go func(k int) {
			defer wg.Done()
			r := c.rng(int64(1000 + k))
			for i := k; i < n; i += w {
				f(r, i)
			}
		}(k)
	}
	wg.Wait()
}

func loadReplay(c *ctx, into any) {
	b, err := os.ReadFile(c.Replay)
	if err != nil {
		fmt.Fprintln(os.Stderr, "replay:", err)
		os.Exit(2)
	}
	var env struct {
		Input json.RawMessage `json:"input"`
	}
	if err := json.Unmarshal(b, &env); err != nil || env.Input == nil {
		fmt.Fprintln(os.Stderr, "replay: bad file:", err)
		os.Exit(2)
	}
	if err := json.Unmarshal(env.Input, into); err != nil {
		fmt.Fprintln(os.Stderr, "replay: bad input:", err)
		os.Exit(2)
	}
}

var _ = atomic.AddInt64

func httptestRequest(host, path string) *http.Request {
	return &http.Request{Host: host, URL: &url.URL{Path: path}, Header: http.Header{}}
}
