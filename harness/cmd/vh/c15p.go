package main

import (
	"crypto/tls"
	"fmt"
	"io"
	"net"
	"net/http"
	"os"
	"path/filepath"
	"strings"
	"sync"
	"time"

	"verif/harness/internal/fabioproc"
	"verif/harness/internal/fakeconsul"
)

func init() { register("c15-run", "C15", c15Run) }

// options that make the process depend on things outside the sandbox or that the harness needs for itself
var c15RunSkip = map[string]bool{
	"cfg": true, "v": true, "version": true, "proxy.addr": true, "ui.addr": true, "registry.backend": true, "registry.consul.addr": true,
	"registry.consul.kvpath": true, "registry.consul.noroutehtmlpath": true, "registry.consul.tagprefix": true,
	"registry.consul.register.enabled": true, "registry.consul.register.addr": true, "proxy.cs": true, "proxy.auth": true,
	"registry.consul.token": true, "registry.consul.tls.keyfile": true, "registry.consul.tls.certfile": true, "registry.consul.tls.cafile": true,
	"registry.consul.tls.capath": true, "registry.consul.tls.insecureskipverify": true,
}

// c15Run: "a configuration that is accepted can be run", decided on the real binary. For one option at a time (list and
// types from fabio's usage text) a well-formed value is put on the command line of the race-built fabio, next to an HTTP
// listener, a prometheus listener and the fake Consul agent. The process may refuse the configuration (exit with a
// message); if it accepts it, it builds routing tables from a catalog of a few services, answers requests, and neither
// then nor at start-up may it die of a Go panic or a runtime fatal error.
func c15Run(c *ctx) {
	c.R.Rule = "[c15-run] the real race-built binary started once per (option, value): option list and types from fabio's usage text, values well-formed for the type (ints up to 2^63-1, negative durations, odd strings), plus fixed cases for options only read while running (registry.consul.serviceMonitors, metrics.prometheus.path with a proto=prometheus listener, metrics.target lists with repeated back ends); next to each: an HTTP listener, a prometheus listener, the fake Consul agent with four services. Allowed: the process refuses the configuration and exits with a message. Not allowed: a Go panic, a runtime fatal error or a data race report at start-up, while building tables, answering a proxied request, an unrouted request, a scrape of the prometheus listener, /api/config. evaluations = fabio processes started; non-trivial = configuration that was accepted and ran; distinct by (option, value)"
	opts, err := c15Options(c)
	if err != nil {
		c.R.Inconcl("%v", err)
		return
	}
	type rc struct {
		name string
		args []string
	}
	var cases []rc
	// options that are only read while running, with the values that matter
	for _, v := range []string{"1", "0", "-3", "7", "100000", "2147483647", "9223372036854775807", "1152921504606846976"} {
		cases = append(cases, rc{"registry.consul.serviceMonitors=" + v, []string{"-registry.consul.serviceMonitors", v}})
	}
	for _, v := range []string{"/metrics", "metrics", "", "/", "/fabio metrics", "/metrics/{", "/{x}", "/{$}", "/m/", "#hash", "ünï cödé", "GET /m", "/a b"} {
		cases = append(cases, rc{"metrics.prometheus.path=" + v, []string{"-metrics.target", "prometheus", "-metrics.prometheus.path", v}})
	}
	for _, v := range []string{"prometheus", "prometheus,prometheus", "stdout,stdout", "prometheus, stdout ,prometheus", "stdout,prometheus", "flat,flat"} {
		cases = append(cases, rc{"metrics.target=" + v, []string{"-metrics.target", v}})
	}
	// listener kinds that terminate TLS, given without a certificate source (the loader's business to refuse them)
	for _, v := range []string{";proto=https+tcp+sni", ";proto=https", ";proto=grpcs", ";proto=tcp+sni", ";proto=tcp;cs=nosuch"} {
		cases = append(cases, rc{"extra-listener=" + v, nil})
	}
	// the custom back end polls a URL put together from four options
	for _, v := range [][]string{{"-registry.custom.host", "bad host:1"}, {"-registry.custom.scheme", ""}, {"-registry.custom.path", "%zz"}, {"-registry.custom.host", "127.0.0.1:1", "-registry.custom.queryparams", "a=%zz b"}} {
		cases = append(cases, rc{"registry.backend=custom " + strings.Join(v, " "), append([]string{"-registry.backend", "custom", "-registry.custom.pollinterval", "200ms", "-registry.custom.timeout", "1s"}, v...)})
	}
	fixed := len(cases)
	r := c.rng(15)
	per := c.pick(1, 6)
	for _, o := range opts {
		if c15RunSkip[o.Name] || strings.HasPrefix(o.Name, "bgp.") || strings.HasPrefix(o.Name, "profile") || strings.HasPrefix(o.Name, "tracing.") {
			continue
		}
		seen := map[string]bool{}
		for k := 0; k < per; k++ {
			v := c15Value(r, o)
			if o.Name == "runtime.gomaxprocs" {
				// handed to the Go runtime as it is: a processor count of 2^31 and more is fatal inside runtime.GOMAXPROCS for any Go
				// program and 100000 costs a GiB; what the runtime makes of absurd counts is not fabio's configuration handling
				v = choose(r, []string{"1", "4", "64", "0", "-1", "017"})
			} else if o.Type == "int" && r.Intn(4) == 0 {
				v = choose(r, []string{"9223372036854775807", "-9223372036854775808", "4294967296", "1152921504606846976"})
			}
			if seen[v] {
				continue
			}
			seen[v] = true
			args := []string{"-" + o.Name + "=" + v}
			if strings.HasPrefix(o.Name, "metrics.") && o.Name != "metrics.target" {
				tgt := "prometheus"
				switch {
				case strings.Contains(o.Name, "statsd"), strings.Contains(o.Name, "graphite"), strings.Contains(o.Name, "circonus"):
					tgt = "" // back ends that need a collector: the option alone
				case o.Name == "metrics.interval" || o.Name == "metrics.prefix" || o.Name == "metrics.names":
					tgt = choose(r, []string{"stdout", "prometheus"})
				}
				if tgt != "" {
					args = append(args, "-metrics.target", tgt)
				}
			}
			cases = append(cases, rc{o.Name + "=" + v, args})
		}
	}
	if !c.thorough() {
		// quick: the fixed cases and a seed-determined share of the generated ones
		gen := cases[fixed:]
		r.Shuffle(len(gen), func(i, j int) { gen[i], gen[j] = gen[j], gen[i] })
		if n := c.scale(70); len(gen) > n {
			cases = append(cases[:fixed:fixed], gen[:n]...)
		}
	}
	// one upstream for all
	up := &http.Server{Handler: http.HandlerFunc(func(w http.ResponseWriter, r *http.Request) { io.WriteString(w, "up:"+r.URL.Path) })}
	uln, err := net.Listen("tcp", "127.0.0.1:0")
	if err != nil {
		c.R.Inconcl("listen: %v", err)
		return
	}
	go up.Serve(uln)
	defer up.Close()
	upPort := uln.Addr().(*net.TCPAddr).Port
	var wg sync.WaitGroup
	sem := make(chan struct{}, 8)
	for i, cs := range cases {
		wg.Add(1)
		sem <- struct{}{}
		go func(i int, cs rc) {
			defer wg.Done()
			defer func() { <-sem }()
			c15RunOne(c, i, cs.name, cs.args, upPort)
		}(i, cs)
	}
	wg.Wait()
}

func c15RunOne(c *ctx, i int, name string, args []string, upPort int) {
	in := map[string]any{"case": name, "args": args}
	a, err := fakeconsul.New()
	if err != nil {
		c.R.Inconcl("fake consul: %v", err)
		return
	}
	defer a.Close()
	a.Update(func(n map[string]*fakeconsul.Node, ins map[string]*fakeconsul.Instance) {
		n["n1"] = &fakeconsul.Node{Name: "n1", Address: "127.0.0.1"}
		for k := 0; k < 4; k++ {
			id := fmt.Sprintf("svc%d-1", k)
			ins["n1/"+id] = &fakeconsul.Instance{ID: id, Name: fmt.Sprintf("svc%d", k), Node: "n1", Address: "127.0.0.1", Port: upPort, Tags: []string{fmt.Sprintf("urlprefix-s%d.test/", k)}, Checks: []fakeconsul.Check{{CheckID: "c", Status: "passing"}}}
		}
	})
	a.PutKV("fabio/config/manual", "route add man man.test/ http://127.0.0.1:9/")
	httpA, promA, uiA := fmt.Sprintf("127.0.0.1:%d", freePort()), fmt.Sprintf("127.0.0.1:%d", freePort()), fmt.Sprintf("127.0.0.1:%d", freePort())
	listen, extraA := httpA+","+promA+";proto=prometheus", ""
	if strings.HasPrefix(name, "extra-listener=") {
		extraA = fmt.Sprintf("127.0.0.1:%d", freePort())
		listen += "," + extraA + strings.TrimPrefix(name, "extra-listener=")
	}
	full := append([]string{"-registry.backend", "consul", "-registry.consul.addr", a.Addr(), "-registry.consul.register.enabled=false", "-proxy.addr", listen, "-ui.addr", uiA}, args...)
	logPath := filepath.Join(c.Dir, fmt.Sprintf("fabio-c15run-%d.log", i))
	p, err := fabioproc.Start(c.Fabio, logPath, full, nil)
	if err != nil {
		c.R.Inconcl("start: %v", err)
		return
	}
	c.R.Eval(1)
	ran := false
	if fabioproc.WaitListening(httpA, 15*time.Second) {
		ran = true
		// let it build a few tables and answer; none of these answers is a verdict, the process's fate is
		cl := &http.Client{Timeout: 3 * time.Second, CheckRedirect: func(*http.Request, []*http.Request) error { return http.ErrUseLastResponse }}
		get := func(url, host string) {
			req, _ := http.NewRequest("GET", url, nil)
			if host != "" {
				req.Host = host
			}
			if resp, err := cl.Do(req); err == nil {
				io.Copy(io.Discard, resp.Body)
				resp.Body.Close()
			}
		}
		for k := 0; k < 3; k++ {
			a.Update(func(n map[string]*fakeconsul.Node, ins map[string]*fakeconsul.Instance) {
				id := fmt.Sprintf("extra-%d", k)
				ins["n1/"+id] = &fakeconsul.Instance{ID: id, Name: "extra", Node: "n1", Address: "127.0.0.1", Port: upPort, Tags: []string{"urlprefix-extra.test/"}, Checks: []fakeconsul.Check{{CheckID: "c", Status: "passing"}}}
			})
			time.Sleep(150 * time.Millisecond)
			get("http://"+httpA+"/x", "s1.test")
			get("http://"+httpA+"/x", "nobody.test")
		}
		if extraA != "" && fabioproc.WaitListening(extraA, 3*time.Second) {
			// a TLS client and a plain one knock at the extra listener
			if tc, err := tls.DialWithDialer(&net.Dialer{Timeout: 3 * time.Second}, "tcp", extraA, &tls.Config{InsecureSkipVerify: true, ServerName: "s1.test"}); err == nil {
				tc.Close()
			}
			if pc, err := net.DialTimeout("tcp", extraA, 3*time.Second); err == nil {
				pc.Write([]byte("GET / HTTP/1.0\r\n\r\n"))
				pc.SetReadDeadline(time.Now().Add(time.Second))
				io.ReadAll(pc)
				pc.Close()
			}
		}
		get("http://"+promA+"/", "")
		get("http://"+promA+"/metrics", "")
		get("http://"+uiA+"/api/config", "")
		get("http://"+uiA+"/api/routes", "")
	}
	alive := p.Alive()
	p.Stop()
	probs := p.ScanLog()
	for _, pr := range probs {
		c.R.Violate("c15:accepted-config-crashes:"+pr.Kind+":"+strings.SplitN(name, "=", 2)[0], fmt.Sprintf("fabio started with %q: %s in its output: %.1500s", args, pr.Kind, pr.Text), in)
	}
	switch {
	case ran && alive:
		c.R.Nontrivial(name)
		c.R.Count("configurations_accepted_and_run", 1)
	case ran:
		c.R.Count("configurations_run_then_exited", 1)
	case !alive:
		c.R.Count("configurations_refused_at_startup", 1)
	default:
		c.R.Count("configurations_without_http_listener_after_15s", 1)
	}
	if c.R.WantSample() {
		c.R.Sample(map[string]any{"args": args, "listening": ran, "alive_at_end": alive})
	}
	if len(probs) == 0 {
		os.Remove(logPath)
	}
}
