package main

import (
	"bufio"
	"crypto/tls"
	"fmt"
	"math/rand"
	"net/http"
	"net/http/httptest"
	"net/url"
	"strings"
	"sync"
	"sync/atomic"

	"github.com/fabiolb/fabio/config"
	"github.com/fabiolb/fabio/proxy"
	"github.com/fabiolb/fabio/route"
)

func init() {
	register("c13-redirect", "C13", c13Redirect)
	register("c13-concurrent", "C13", c13Concurrent)
}

// c13Concurrent: "under any number of simultaneous requests": many goroutines request
// different URLs on the same redirect routes; each must get the Location for its own request.
func c13Concurrent(c *ctx) {
	c.R.Rule = "32 goroutines send distinct requests (own path, query, host) to the same redirect routes of every template form through HTTPProxy.ServeHTTP; each Location must be the one for its own request; race detector on. evaluations = requests; non-trivial = request served while another request to the same route was in flight (first 20000 counted); distinct by (goroutine,iteration)"
	var b strings.Builder
	for i, tm := range c13Templates {
		fmt.Fprintf(&b, "route add r%d red%d.test/ %s opts \"redirect=30%d\"\n", i, i, tm, 1+i%3)
	}
	t, err := newTable(b.String())
	if err != nil {
		c.R.Inconcl("table: %v", err)
		return
	}
	gc := route.NewGlobCache(100)
	stub := &c06Stub{}
	hp := &proxy.HTTPProxy{Config: config.Proxy{}, Transport: stub,
		Lookup: func(r *http.Request) *route.Target {
			return t.Lookup(r, "", route.Picker["rr"], route.Matcher["prefix"], gc, false)
		}}
	per := c.scale(c.pick(3000, 100000))
	var inflight [32]atomic.Int32
	var nt atomic.Int32
	var wg sync.WaitGroup
	for g := 0; g < 32; g++ {
		wg.Add(1)
		go func(g int) {
			defer wg.Done()
			r := c.rng(int64(7000 + g))
			for i := 0; i < per; i++ {
				k := r.Intn(len(c13Templates))
				cs := &c13Case{Tmpl: c13Templates[k], Host: fmt.Sprintf("red%d.test", k), RawPath: fmt.Sprintf("/g%d/i%d/%s", g, i, choose(r, c13PathSegs)), Query: fmt.Sprintf("g=%d&i=%d", g, i)}
				req, err := c13Request(cs.Host, cs.RawPath, cs.Query, false, nil)
				if err != nil {
					continue
				}
				esc := (&url.URL{Path: req.URL.Path, RawPath: req.URL.RawPath}).EscapedPath()
				want := c13Expect(cs, esc)
				rec := httptest.NewRecorder()
				if inflight[k%32].Add(1) > 1 && nt.Add(1) <= 20000 {
					c.R.Nontrivial(fmt.Sprintf("%d/%d", g, i))
				}
				p := safely(func() { hp.ServeHTTP(rec, req) })
				inflight[k%32].Add(-1)
				c.R.Eval(1)
				if p != "" {
					c.R.Violate("c13:concurrent-panic", p, nil)
					return
				}
				if got := rec.Header().Get("Location"); got != want || rec.Code != 301+k%3 {
					c.R.Violate("c13:location-crossed", fmt.Sprintf("goroutine %d request %s%s?%s got %d Location %q, want %q", g, cs.Host, cs.RawPath, cs.Query, rec.Code, got, want), nil)
					return
				}
			}
		}(g)
	}
	wg.Wait()
	if stub.hits.Load() != 0 {
		c.R.Violate("c13:upstream-contacted", "a redirect route contacted an upstream", nil)
	}
	c.R.Sample(map[string]any{"request": "red3.test/g5/i7/%2F?g=5&i=7", "template": c13Templates[3], "want": "https://new.test/g5/i7/%2F?g=5&i=7"})
}

type c13Tmpl struct {
	Dst string // target of the route, e.g. https://$host/bbb/$path
}

var c13Templates = []string{
	"https://new.test/", "https://new.test/fixed", "https://new.test/fixed?x=1", "https://new.test$path", "https://new.test/$path",
	"https://new.test/prefix/$path", "https://new.test/prefix$path", "https://$host$path", "https://$host/$path", "http://$host/x$path",
	"https://$host/", "https://new.test$path?own=1", "https://$host/y/$path?own=2", "http://new.test:8080/$path",
}

var c13PathSegs = []string{"p", "p/q", "a", "b", "%2F", "%20", "%3F", "%25", "a%2Fb", "x.y", "-_~", "é", "%C3%A9", "a+b", "a;b", "@", ":", "é%2F"}

type c13Case struct {
	Tmpl    string
	Code    string
	Strip   string
	Prepend string
	Host    string // request host
	RawPath string // as written on the request line
	Query   string
	TLS     bool
}

func genC13(r *rand.Rand) *c13Case {
	cs := &c13Case{Tmpl: choose(r, c13Templates)}
	cs.Code = choose(r, []string{"301", "302", "303", "307", "308", "300", "399", "301", "302"})
	if r.Intn(12) == 0 {
		cs.Code = choose(r, []string{"200", "299", "400", "404", "0", "-1", "abc", "3000", "99999999999999999999", "9223372036854775807", "301.0"})
	}
	cs.Strip = choose(r, []string{"", "", "/p", "/p/q", "/p/", "/p/q"})
	cs.Prepend = choose(r, []string{"", "", "/pre", "/pre/x", "/l\u00e4s"})
	cs.Host = choose(r, []string{"red.test", "red.test:8080", "RED.test", "red.test:80"})
	var b strings.Builder
	if cs.Strip != "" && r.Intn(5) > 0 {
		sp := cs.Strip
		if r.Intn(5) == 0 {
			// the client writes a letter of the prefix as an escape
			i := 1 + 2*r.Intn(len(sp)/2)
			sp = sp[:i] + fmt.Sprintf("%%%02X", sp[i]) + sp[i+1:]
		}
		b.WriteString(sp)
		if r.Intn(3) == 0 {
			// what follows the prefix does not start with a slash: the prefix ends in one, or cuts a segment in two
			b.WriteString(choose(r, []string{"users", "x%2Fy", "q"}))
		}
	}
	for n := r.Intn(4); n > 0; n-- {
		b.WriteString("/" + choose(r, c13PathSegs))
	}
	if r.Intn(3) == 0 || b.Len() == 0 {
		b.WriteString("/")
	}
	cs.RawPath = b.String()
	cs.Query = choose(r, []string{"", "", "a=1", "a=1&b=2", "q=%26x", "a=b+c", "x"})
	cs.TLS = r.Intn(3) == 0
	if cs.Host == "red.test:80" {
		cs.TLS = false // :80 is the default port of plain connections only
	}
	return cs
}

func (cs *c13Case) script() string {
	var opts []string
	opts = append(opts, "redirect="+cs.Code)
	if cs.Strip != "" {
		opts = append(opts, "strip="+cs.Strip)
	}
	if cs.Prepend != "" {
		opts = append(opts, "prepend="+cs.Prepend)
	}
	return fmt.Sprintf("route add red red.test/ %s opts \"%s\"\nroute add red red.test:8080/ %s opts \"%s\"\n", cs.Tmpl, strings.Join(opts, " "), cs.Tmpl, strings.Join(opts, " "))
}

// c13Expect builds the Location from the statement: $path = this request's
// (escaped) path after strip and prepend, $host = its host, request query carried
// when the target has none (and uses $path).
func c13Expect(cs *c13Case, escPath string) string {
	t := cs.Tmpl
	i := strings.Index(t, "://")
	scheme, rest := t[:i], t[i+3:]
	query := ""
	if q := strings.Index(rest, "?"); q >= 0 {
		rest, query = rest[:q], rest[q+1:]
	}
	cut := len(rest)
	if j := strings.Index(rest, "/"); j >= 0 && j < cut {
		cut = j
	}
	if j := strings.Index(rest, "$path"); j >= 0 && j < cut {
		cut = j
	}
	host, path := rest[:cut], rest[cut:]
	usesPath := strings.Contains(path, "$path")
	if usesPath {
		p := escPath
		if dec, err := url.PathUnescape(p); cs.Strip != "" && err == nil && strings.HasPrefix(dec, cs.Strip) {
			// as much of the encoded path as decodes to the prefix goes; what is left is a path again
			for n := len(cs.Strip); n > 0 && p != ""; n-- {
				if p[0] == '%' && len(p) >= 3 {
					p = p[3:]
				} else {
					p = p[1:]
				}
			}
			if p != "" && !strings.HasPrefix(p, "/") {
				p = "/" + p
			}
		}
		p = (&url.URL{Path: cs.Prepend}).EscapedPath() + p
		path = strings.Replace(path, "/$path", "$path", 1)
		path = strings.Replace(path, "$path", p, 1)
		if query == "" {
			query = cs.Query
		}
	}
	if path == "" {
		path = "/"
	}
	host = strings.Replace(host, "$host", cs.Host, 1)
	loc := scheme + "://" + host + path
	if query != "" {
		loc += "?" + query
	}
	return loc
}

func c13Request(host, rawPath, query string, isTLS bool, hdr map[string]string) (*http.Request, error) {
	target := rawPath
	if query != "" {
		target += "?" + query
	}
	var b strings.Builder
	fmt.Fprintf(&b, "GET %s HTTP/1.1\r\nHost: %s\r\n", target, host)
	for k, v := range hdr {
		fmt.Fprintf(&b, "%s: %s\r\n", k, v)
	}
	b.WriteString("\r\n")
	req, err := http.ReadRequest(bufio.NewReader(strings.NewReader(b.String())))
	if err != nil {
		return nil, err
	}
	req.RemoteAddr = "10.1.2.3:4567"
	if isTLS {
		req.TLS = &tls.ConnectionState{}
	}
	return req, nil
}

func c13Redirect(c *ctx) {
	n := c.scale(c.pick(150000, 4000000))
	c.R.Rule = "every documented redirect template form x status codes (incl. invalid) x strip/prepend x request paths with percent-encoded and unicode segments x queries x hosts, parsed from raw request bytes like the server does, through Table.Lookup + HTTPProxy.ServeHTTP (recorder, counting stub transport); Location compared with a reference built from the statement; self-redirect tables must fall through to the next host. non-trivial = template uses $path or $host and the path has an encoded segment or strip/prepend applies; distinct by case"
	pick, match := route.Picker["rr"], route.Matcher["prefix"]
	gc := route.NewGlobCache(100)
	tables := map[string]route.Table{}
	_ = tables
	run := func(cs *c13Case, i int) {
		c.R.Eval(1)
		in := map[string]any{"Case": cs}
		t, err := newTable(cs.script())
		if err != nil {
			c.R.Violate("c13:table", err.Error(), in)
			return
		}
		req, err := c13Request(cs.Host, cs.RawPath, cs.Query, cs.TLS, nil)
		if err != nil {
			c.R.Count("unparsable_requests", 1)
			return
		}
		esc := (&url.URL{Path: req.URL.Path, RawPath: req.URL.RawPath}).EscapedPath()
		stub := &c06Stub{}
		hp := &proxy.HTTPProxy{Config: config.Proxy{}, Transport: stub,
			Lookup: func(r *http.Request) *route.Target { return t.Lookup(r, "", pick, match, gc, false) }}
		rec := httptest.NewRecorder()
		if p := safely(func() { hp.ServeHTTP(rec, req) }); p != "" {
			c.R.Violate("c13:panic", p, in)
			return
		}
		code := 0
		fmt.Sscanf(cs.Code, "%d", &code)
		valid := code >= 300 && code <= 399 && fmt.Sprint(code) == cs.Code
		if !valid {
			// an invalid code must not produce a redirect
			if rec.Code >= 300 && rec.Code <= 399 {
				c.R.Violate("c13:invalid-code-redirects", fmt.Sprintf("redirect=%s answered %d", cs.Code, rec.Code), in)
			}
			c.R.Count("invalid_code_cases", 1)
			return
		}
		want := c13Expect(cs, esc)
		usesVar := strings.Contains(cs.Tmpl, "$")
		if usesVar && (strings.Contains(cs.RawPath, "%") || cs.Strip != "" || cs.Prepend != "") {
			c.R.Nontrivial(fmt.Sprintf("%+v", *cs))
		}
		if c.R.WantSample() && usesVar && strings.Contains(cs.RawPath, "%") {
			c.R.Sample(map[string]any{"route": strings.Split(cs.script(), "\n")[0], "request": cs.Host + cs.RawPath + "?" + cs.Query, "location": want})
		}
		own := "http"
		if cs.TLS {
			own = "https"
		}
		if base, _, _ := strings.Cut(want, "?"); base == own+"://"+cs.Host+esc {
			// the redirect would point back at the request itself: it is skipped, and this table has no other route
			c.R.Count("self_pointing_cases", 1)
			if rec.Code != 404 || stub.hits.Load() != 0 {
				c.R.Violate("c13:self-redirect-not-skipped", fmt.Sprintf("redirect to the request's own URL %s answered %d Location %q", want, rec.Code, rec.Header().Get("Location")), in)
			}
			return
		}
		if rec.Code != code {
			c.R.Violate("c13:status", fmt.Sprintf("status %d, want %d", rec.Code, code), in)
			return
		}
		if got := rec.Header().Get("Location"); got != want {
			sig := "c13:location"
			if strings.Contains(cs.RawPath, "%") && !strings.Contains(got, "%") {
				sig += ":encoding-lost"
			}
			if strings.Contains(cs.Tmpl, "$host$path") {
				sig += ":host-path-form"
			}
			c.R.Violate(sig, fmt.Sprintf("Location %q, want %q", got, want), in)
			return
		}
		if stub.hits.Load() != 0 {
			c.R.Violate("c13:upstream-contacted", "redirect route contacted an upstream", in)
		}
	}
	if c.Replay != "" {
		var in struct {
			Case *c13Case
			Self *c13Self
		}
		loadReplay(c, &in)
		if in.Case != nil {
			run(in.Case, 0)
		}
		if in.Self != nil {
			c13SelfCheck(c, in.Self)
		}
		return
	}
	parallel(c, n, func(r *rand.Rand, i int) {
		if i%10 == 9 {
			c13SelfCheck(c, genC13Self(r))
			return
		}
		run(genC13(r), i)
	})
}

type c13Self struct {
	Scheme   string // scheme of the redirect target
	Path     string // route path
	Req      string // request raw path
	TLS      bool
	XFP      string // X-Forwarded-Proto sent by the client ("" = none)
	Port     string
	ReqHost  string // spelling of the host in the request: any case, with or without the scheme's default port
	TmplHost string // spelling of the host in the redirect target
	HostLess bool   // the redirect route has no host (target https://$host$path) and nothing else matches
}

func genC13Self(r *rand.Rand) *c13Self {
	s := &c13Self{Scheme: choose(r, []string{"http", "https"}), Path: choose(r, []string{"/", "/a"}),
		Req: choose(r, []string{"/", "/a", "/a/b", "/x"}), TLS: r.Intn(2) == 0, XFP: choose(r, []string{"", "", "http", "https"})}
	s.ReqHost, s.TmplHost = "self.test", "self.test"
	switch r.Intn(6) {
	case 0:
		s.ReqHost = choose(r, []string{"SELF.TEST", "Self.Test", "self.test:DEFAULT", "SELF.test:DEFAULT"})
	case 1:
		s.TmplHost = choose(r, []string{"Self.Test", "SELF.test"}) // (a port in front of $path would not be a valid URL)
	case 2:
		s.HostLess = true
	}
	return s
}

// c13SelfCheck: a redirect pointing back at the request's own scheme, host and
// path must be skipped in favour of the next matching host (here the host-less fallback).
func c13SelfCheck(c *ctx, s *c13Self) {
	c.R.Eval(1)
	in := map[string]any{"Self": s}
	if s.ReqHost == "" {
		s.ReqHost, s.TmplHost = "self.test", "self.test"
	}
	script := fmt.Sprintf("route add self self.test%s %s://self.test$path opts \"redirect=301\"\nroute add fallback / http://10.1.1.1:80/\n", s.Path, s.Scheme)
	if s.HostLess {
		c13SelfHostLess(c, s)
		return
	}
	t, err := newTable(script)
	if err != nil {
		c.R.Violate("c13:table", err.Error(), in)
		return
	}
	hdr := map[string]string{}
	if s.XFP != "" {
		hdr["X-Forwarded-Proto"] = s.XFP
	}
	own := "http"
	if s.TLS {
		own = "https"
	}
	if s.XFP != "" {
		own = s.XFP // the scheme the client used towards the first hop
	}
	// host spellings: the default port of the scheme in question, any letter case (only where scheme and connection agree:
	// a default port belongs to one scheme)
	defPort := map[string]string{"http": ":80", "https": ":443"}
	reqHost := strings.Replace(s.ReqHost, ":DEFAULT", defPort[own], 1)
	tmplHost := strings.Replace(s.TmplHost, ":DEFAULT", defPort[s.Scheme], 1)
	if (strings.Contains(s.ReqHost, ":") || strings.Contains(s.TmplHost, ":")) && (s.XFP != "" || own != s.Scheme) {
		reqHost, tmplHost = "self.test", "self.test"
	}
	script = fmt.Sprintf("route add self self.test%s %s://%s$path opts \"redirect=301\"\nroute add fallback / http://10.1.1.1:80/\n", s.Path, s.Scheme, tmplHost)
	if t, err = newTable(script); err != nil {
		c.R.Violate("c13:table", err.Error(), in)
		return
	}
	req, err := c13Request(reqHost, s.Req, "", s.TLS, hdr)
	if err != nil {
		return
	}
	matches := strings.HasPrefix(s.Req, s.Path)
	stub := &c06Stub{}
	gc := route.NewGlobCache(10)
	hp := &proxy.HTTPProxy{Config: config.Proxy{}, Transport: stub,
		Lookup: func(r *http.Request) *route.Target {
			return t.Lookup(r, "", route.Picker["rr"], route.Matcher["prefix"], gc, false)
		}}
	rec := httptest.NewRecorder()
	if p := safely(func() { hp.ServeHTTP(rec, req) }); p != "" {
		c.R.Violate("c13:panic", p, in)
		return
	}
	c.R.Count("self_redirect_cases", 1)
	switch {
	case !matches || own == s.Scheme:
		// no redirect route matches, or it would point back at the request itself: the fallback serves
		if matches {
			c.R.Nontrivial(fmt.Sprintf("self %+v", *s))
		}
		if rec.Code != 200 || !strings.HasPrefix(rec.Body.String(), "upstream=10.1.1.1:80") {
			sig := "c13:self-redirect-not-skipped"
			if s.XFP == "" {
				sig += ":no-xfp-header"
			}
			if reqHost != "self.test" || tmplHost != "self.test" {
				sig += ":host-spelling"
			}
			c.R.Violate(sig, fmt.Sprintf("%s request %s for host %q (X-Forwarded-Proto %q) to a route redirecting to %s://%s$path: got %d Location %q, want the fallback route", own, s.Req, reqHost, s.XFP, s.Scheme, tmplHost, rec.Code, rec.Header().Get("Location")), in)
		}
	default:
		want := s.Scheme + "://" + tmplHost + s.Req
		if rec.Code != 301 || rec.Header().Get("Location") != want {
			c.R.Violate("c13:self-redirect-overskipped", fmt.Sprintf("%s request %s: got %d Location %q, want 301 %q", own, s.Req, rec.Code, rec.Header().Get("Location"), want), in)
		}
	}
}

// c13SelfHostLess: the self-pointing redirect sits on a host-less route and no other route matches: it is skipped, and the
// request has no route (it must not be redirected to itself).
func c13SelfHostLess(c *ctx, s *c13Self) {
	in := map[string]any{"Self": s}
	t, err := newTable(fmt.Sprintf("route add self %s %s://$host$path opts \"redirect=301\"\nroute add other other.test/ http://10.1.1.2:80/\n", s.Path, s.Scheme))
	if err != nil {
		c.R.Violate("c13:table", err.Error(), in)
		return
	}
	req, err := c13Request("any.test", s.Req, "", s.TLS, nil)
	if err != nil {
		return
	}
	own := "http"
	if s.TLS {
		own = "https"
	}
	stub := &c06Stub{}
	gc := route.NewGlobCache(10)
	hp := &proxy.HTTPProxy{Config: config.Proxy{NoRouteStatus: 404}, Transport: stub,
		Lookup: func(r *http.Request) *route.Target {
			return t.Lookup(r, "", route.Picker["rr"], route.Matcher["prefix"], gc, false)
		}}
	rec := httptest.NewRecorder()
	if p := safely(func() { hp.ServeHTTP(rec, req) }); p != "" {
		c.R.Violate("c13:panic", p, in)
		return
	}
	c.R.Count("self_redirect_cases", 1)
	matches := strings.HasPrefix(s.Req, s.Path)
	switch {
	case matches && own == s.Scheme:
		c.R.Nontrivial(fmt.Sprintf("self-hostless %+v", *s))
		if rec.Code != 404 || stub.hits.Load() != 0 {
			c.R.Violate("c13:self-redirect-not-skipped:host-less-route", fmt.Sprintf("%s request any.test%s matches only the host-less route redirecting to %s://$host$path, i.e. to itself: got %d Location %q, want the no-route answer", own, s.Req, s.Scheme, rec.Code, rec.Header().Get("Location")), in)
		}
	case matches:
		if want := s.Scheme + "://any.test" + s.Req; rec.Code != 301 || rec.Header().Get("Location") != want {
			c.R.Violate("c13:self-redirect-overskipped", fmt.Sprintf("%s request any.test%s: got %d Location %q, want 301 %q", own, s.Req, rec.Code, rec.Header().Get("Location"), want), in)
		}
	}
}
