package main

import (
	"crypto/tls"
	"fmt"
	"io"
	"net/http"
	"strings"
	"sync"
	"sync/atomic"
	"time"

	"verif/harness/internal/fabioproc"
	"verif/harness/internal/rawhttp"
	"verif/harness/internal/refmodel"
)

func init() { register("c03-wire", "C03", c03Wire) }

// c03Wire: route selection through the real binary. Every route carries its own prepend option, so the path the
// upstream sees names the route fabio chose; the choice is compared with the brute-force reference selection for the
// Host the client sent (any letter case, default / other / no port), over plain HTTP/1.1, TLS HTTP/1.1, HTTP/2
// (:authority) and absolute-form request targets.
func c03Wire(c *ctx) {
	c.R.Rule = "[c03-wire] the real binary (plain and TLS listeners, -proxy.matcher prefix|glob|iprefix, host globbing on/off) with generated overlapping routes (exact, wildcard, default-port, host-less hosts; nested paths) delivered through the fake Consul KV, each route marked by its own prepend option; raw HTTP/1.1 requests (Host in any case, with default/other/no port, absolute-form targets), TLS and HTTP/2 requests; the route named by the path the upstream received must be a winner of the reference selection, a request with candidates must reach the upstream, one without must get the no-route status. evaluations = requests; non-trivial = request with >=2 candidate routes; distinct by (table, request)"
	type cfgT struct {
		matcher string
		noGlob  bool
	}
	cfgs := []cfgT{{"prefix", false}, {"glob", false}}
	if c.thorough() {
		cfgs = append(cfgs, cfgT{"iprefix", false}, cfgT{"prefix", true}, cfgT{"iprefix", true})
	}
	tables := c.scale(c.pick(40, 300))
	perTable := 60
	var wg sync.WaitGroup
	for ci, cf := range cfgs {
		wg.Add(1)
		go func(ci int, cf cfgT) {
			defer wg.Done()
			extra := []string{"-proxy.matcher", cf.matcher, "-proxy.noroutestatus", "418"}
			if cf.noGlob {
				extra = append(extra, "-glob.matching.disabled=true")
			}
			rg, err := newC07Rig(c, c07HdrCfg{Name: fmt.Sprintf("sel%d", ci)}, extra)
			if err != nil {
				c.R.Inconcl("cannot start the rig: %v", err)
				return
			}
			defer rg.close()
			h2 := &http.Client{Timeout: 20 * time.Second, Transport: &http.Transport{ForceAttemptHTTP2: true, TLSClientConfig: &tls.Config{InsecureSkipVerify: true, ServerName: "fabio.test"}, DisableCompression: true},
				CheckRedirect: func(*http.Request, []*http.Request) error { return http.ErrUseLastResponse }}
			defer h2.CloseIdleConnections()
			r := c.rng(int64(330 + ci))
			var seq atomic.Int64
			for ti := 0; ti < tables; ti++ {
				// a generated table in the vocabulary of c03-lookup
				var cs *c03Case
				for {
					cs = genC03(r)
					if len(cs.Routes) >= 3 {
						break
					}
				}
				if ti%2 == 0 {
					// a family of overlapping routes: one name, the wildcards that cover it, the same name with the default
					// port, a host-less route, each with nested paths
					fam := choose(r, [][]string{
						{"a.x.com", "*.x.com", "*x.com", "*.com", "*", "", "a.x.com:80", "a.x.com:443", "?.x.com", "{a,b}.x.com", "a.*.com"},
						{"a.b.x.com", "*.b.x.com", "*.x.com", "*.*.x.com", "*", "", "b.x.com", "a.b.x.com:80"},
						{"x.com", "*x.com", "*.com", "", "x.com:443", "x.com:80", "{x,ax}.com", "x.com:8080"},
						{"www.y.org", "*.y.org", "y.org", "*", ""}})
					cs = &c03Case{}
					for _, h := range fam {
						if r.Intn(3) == 0 {
							continue
						}
						for _, p := range []string{"/", "/a", "/a/b", "/a/b/c", "/A/b", "/ab"} {
							if r.Intn(3) == 0 {
								cs.Routes = append(cs.Routes, refmodel.LRoute{Host: h, Path: p})
							}
						}
					}
					if len(cs.Routes) < 3 {
						cs.Routes = append(cs.Routes, refmodel.LRoute{Host: fam[0], Path: "/"}, refmodel.LRoute{Host: fam[1], Path: "/a"}, refmodel.LRoute{Host: "", Path: "/"})
					}
					if len(cs.Routes) > 24 {
						cs.Routes = cs.Routes[:24]
					}
				}
				cs.Matcher, cs.NoGlob = cf.matcher, cf.noGlob
				if cf.matcher == "glob" {
					for i := range cs.Routes {
						if !strings.ContainsAny(cs.Routes[i].Path, "*{") {
							cs.Routes[i].Path = choose(r, c03GlobPaths)
						}
					}
				} else {
					for i := range cs.Routes {
						if strings.ContainsAny(cs.Routes[i].Path, "*{") {
							cs.Routes[i].Path = choose(r, c03Paths)
						}
					}
				}
				seen := map[string]bool{}
				var routes []refmodel.LRoute
				var lines []string
				for _, rt := range cs.Routes {
					if seen[rt.Host+rt.Path] {
						continue
					}
					seen[rt.Host+rt.Path] = true
					rt.ID = fmt.Sprintf("r%d", len(routes))
					routes = append(routes, rt)
					h := rt.Host
					if r.Intn(3) == 0 {
						h = randCase(r, h)
					}
					lines = append(lines, fmt.Sprintf("route add %s %s%s http://%s/ opts \"prepend=/__%s\"", rt.ID, h, rt.Path, rg.up.Addr(), rt.ID))
				}
				script := strings.Join(lines, "\n")
				rg.rg.setManual(script)
				if err := rg.rg.barrier(); err != nil {
					c.R.Inconcl("barrier: %v", err)
					return
				}
				cfg := refmodel.LookupCfg{Matcher: cf.matcher, GlobDisabled: cf.noGlob}
				var rwg sync.WaitGroup
				sem := make(chan struct{}, 8)
				for qi := 0; qi < perTable; qi++ {
					host := choose(r, c03ReqHosts)
					if r.Intn(5) < 3 {
						// aim at the table: a name one of its host patterns matches
						h := routes[r.Intn(len(routes))].Host
						if i := strings.LastIndex(h, ":"); i >= 0 && !strings.HasSuffix(h, "]") && !strings.Contains(h[i:], "]") {
							h = h[:i] // drop a port, but leave IPv6 literals whole
						}
						h = strings.NewReplacer("*", choose(r, []string{"a", "b", "c.a", ""}), "?", "a", "[ab]", "b", "{a,b}", "a", "{x,ax}", "ax", "[w-y]", "x", "{", "").Replace(h)
						if h != "" {
							host = h
						}
					}
					if host == "" {
						host = "q.net"
					}
					host = randCase(r, host) + choose(r, c03Ports)
					path := choose(r, c03ReqPaths)
					if r.Intn(2) == 0 {
						// (a '?' in a request target would start the query: the pattern character becomes a digit)
						path = strings.NewReplacer("?", "1").Replace(strings.TrimRight(routes[r.Intn(len(routes))].Path, "*{")) + choose(r, []string{"", "", "/x", "x"})
					}
					if path == "" || path[0] != '/' {
						path = "/" + path
					}
					for _, ch := range path {
						if ch > 127 {
							path = "/" // request lines stay ASCII here; non-ASCII paths are the in-process part's business
							break
						}
					}
					mode := choose(r, []string{"plain", "plain", "tls", "h2", "absolute"})
					rwg.Add(1)
					sem <- struct{}{}
					go func(host, path, mode string) {
						defer rwg.Done()
						defer func() { <-sem }()
						id := fmt.Sprintf("sel%d-%d", ci, seq.Add(1))
						rg.up.SetScript(id, &rawhttp.Script{Status: 200, Framing: "length", Body: []byte("ok")})
						isTLS := mode == "tls" || mode == "h2"
						status := 0
						var rerr error
						switch mode {
						case "h2":
							req, _ := http.NewRequest("GET", "https://"+rg.tlsA+path, nil)
							req.Host = host
							req.Header.Set("X-Verif-Id", id)
							resp, err := h2.Do(req)
							if err != nil {
								rerr = err
							} else {
								io.Copy(io.Discard, resp.Body)
								resp.Body.Close()
								status = resp.StatusCode
								if resp.ProtoMajor == 2 {
									c.R.Count("http2_requests", 1)
								}
							}
						default:
							dial := rawhttp.Dial{Addr: rg.plain, Timeout: 20 * time.Second}
							if mode == "tls" {
								dial = rawhttp.Dial{Addr: rg.tlsA, TLS: true, SNI: "fabio.test", Timeout: 20 * time.Second}
							}
							raw := fmt.Sprintf("GET %s HTTP/1.1\r\nHost: %s\r\nX-Verif-Id: %s\r\nConnection: close\r\n\r\n", path, host, id)
							if mode == "absolute" {
								// absolute-form: the host of the request target is the one that counts (RFC 9112 3.2.2)
								raw = fmt.Sprintf("GET http://%s%s HTTP/1.1\r\nHost: other.invalid\r\nX-Verif-Id: %s\r\nConnection: close\r\n\r\n", host, path, id)
							}
							resp := rawhttp.Do(dial, []byte(raw), "GET")
							status, rerr = resp.Status, resp.Err
						}
						got := rg.up.Take(id)
						c.R.Eval(1)
						q := c03Req{Host: host, TLS: isTLS, Path: path}
						cands, winners := refmodel.Select(cfg, routes, host, isTLS, path)
						vin := map[string]any{"Script": script, "Req": q, "Mode": mode, "Matcher": cf.matcher, "NoGlob": cf.noGlob}
						if len(cands) >= 2 {
							c.R.Nontrivial(script + "|" + host + "|" + path + "|" + mode)
						}
						if rerr != nil {
							c.R.Violate("c03w:request-failed", fmt.Sprintf("%s request %+v: %v", mode, q, rerr), vin)
							return
						}
						switch {
						case got == nil && len(cands) > 0:
							c.R.Violate("c03w:not-routed:"+cf.matcher, fmt.Sprintf("%s request %+v has candidates %v but got status %d without reaching an upstream", mode, q, descs(cands), status), vin)
						case got != nil && len(cands) == 0:
							c.R.Violate("c03w:routed-without-match:"+cf.matcher, fmt.Sprintf("%s request %+v reached the upstream as %q although no route matches", mode, q, got.Target), vin)
						case got == nil:
							if status != 418 {
								c.R.Violate("c03w:noroute-status", fmt.Sprintf("%s request %+v without a route got status %d, configured 418", mode, q, status), vin)
							}
						default:
							rid := ""
							if strings.HasPrefix(got.Target, "/__r") {
								rid = strings.TrimPrefix(got.Target, "/__")
								if i := strings.IndexAny(rid, "/?"); i >= 0 {
									rid = rid[:i]
								}
							}
							ok, isCand := false, false
							for _, w := range winners {
								ok = ok || w.ID == rid
							}
							for _, w := range cands {
								isCand = isCand || w.ID == rid
							}
							var chosen []refmodel.LRoute
							for _, rt := range routes {
								if rt.ID == rid {
									chosen = append(chosen, rt)
								}
							}
							if !isCand {
								c.R.Violate("c03w:non-matching-route:"+cf.matcher, fmt.Sprintf("%s request %+v was sent through route %v (upstream saw %q) which does not match it; candidates %v", mode, q, descs(chosen), got.Target, descs(cands)), vin)
							} else if !ok {
								c.R.Violate("c03w:less-specific:"+cf.matcher, fmt.Sprintf("%s request %+v was sent through %v; most specific is %v (candidates %v)", mode, q, descs(chosen), descs(winners), descs(cands)), vin)
							}
							if c.R.WantSample() && len(cands) >= 2 {
								c.R.Sample(map[string]any{"mode": mode, "request": q, "matcher": cf.matcher, "chosen": descs(chosen), "candidates": descs(cands)})
							}
						}
					}(host, path, mode)
				}
				rwg.Wait()
			}
		}(ci, cf)
	}
	wg.Wait()
	_ = fabioproc.WaitListening
}
