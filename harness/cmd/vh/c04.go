package main

import (
	"fmt"
	"math"
	"math/rand"
	"strings"

	"github.com/fabiolb/fabio/route"

	"verif/harness/internal/refmodel"
)

func init() { register("c04-weights", "C04", c04Weights) }

type c04Case struct {
	Fixed   []float64 // per target as written in 'route add'
	Tags    []string  // per target, "" or tag
	Svc     []int     // per target service index
	WeightC []string  // trailing 'route weight' commands
}

func (cs *c04Case) script() string {
	var b strings.Builder
	for i, f := range cs.Fixed {
		fmt.Fprintf(&b, "route add svc%d h.test/ http://10.%d.%d.%d:80/", cs.Svc[i], i/65536, (i/256)%256, i%256)
		if f != 0 {
			fmt.Fprintf(&b, " weight %s", fmtG(f))
		}
		if cs.Tags[i] != "" {
			fmt.Fprintf(&b, " tags %q", cs.Tags[i])
		}
		b.WriteByte('\n')
	}
	for _, w := range cs.WeightC {
		b.WriteString(w)
		b.WriteByte('\n')
	}
	return b.String()
}

func fmtG(f float64) string { return fmt.Sprintf("%g", f) }

func genC04(r *rand.Rand, thorough bool) *c04Case {
	k := 1 + r.Intn(40)
	switch x := r.Intn(100); {
	case x < 3:
		k = 100 + r.Intn(400)
	case x == 3 && thorough && r.Intn(8) == 0: // the weighing of thousands of targets is cubic: a few per run
		k = 1000 + r.Intn(1500)
	}
	cs := &c04Case{}
	mode := r.Intn(7)
	pool := []float64{0.01, 0.05, 0.1, 0.2, 0.25, 0.3, 1.0 / 3, 0.5, 0.75, 1, 2, 1e-5, 1e-4, 0.00015, 0.9999, 12.5}
	for i := 0; i < k; i++ {
		var f float64
		switch mode {
		case 0: // all dynamic
		case 1: // all fixed, random
			f = choose(r, pool)
		case 2: // all fixed, sum < 1
			f = 0.9 * r.Float64() / float64(k)
			if f == 0 {
				f = 1e-5
			}
		case 3: // mixed
			if r.Intn(2) == 0 {
				f = choose(r, pool)
			}
		case 4: // tiny ones among dynamic
			if r.Intn(3) == 0 {
				f = 1e-5
			}
		case 5: // duplicates of one value
			f = 0.1
			if r.Intn(4) == 0 {
				f = 0
			}
		case 6: // random floats
			if r.Intn(3) > 0 {
				f = math.Round(r.Float64()*1e6) / 1e6
			}
		}
		cs.Fixed = append(cs.Fixed, f)
		cs.Svc = append(cs.Svc, r.Intn(3))
		tag := ""
		if r.Intn(2) == 0 {
			tag = choose(r, []string{"a", "b"})
		}
		cs.Tags = append(cs.Tags, tag)
	}
	if k <= 60 && r.Intn(3) == 0 {
		for j := r.Intn(3); j >= 0; j-- {
			w := choose(r, []float64{0.05, 0.1, 0.25, 0.5, 0.9, 1, 1.5, 0, 0, -1})
			switch r.Intn(3) {
			case 0:
				cs.WeightC = append(cs.WeightC, fmt.Sprintf("route weight svc%d h.test/ weight %g", r.Intn(3), w))
			case 1:
				cs.WeightC = append(cs.WeightC, fmt.Sprintf("route weight svc%d h.test/ weight %g tags %q", r.Intn(3), w, choose(r, []string{"a", "b"})))
			case 2:
				cs.WeightC = append(cs.WeightC, fmt.Sprintf("route weight h.test/ weight %g tags %q", w, choose(r, []string{"a", "b"})))
			}
		}
	}
	return cs
}

// c04Expect computes the reference fixed weights after the weight commands and the effective weights.
func c04Expect(cs *c04Case) (fixed, eff []float64, ok bool) {
	fixed = append([]float64(nil), cs.Fixed...)
	for i, f := range fixed {
		if f < 0 {
			fixed[i] = 0
		}
	}
	for _, wc := range cs.WeightC {
		d, good := parseOwn(wc)
		if !good {
			return nil, nil, false
		}
		var m []int
		for i := range fixed {
			if d.Service != "" && fmt.Sprintf("svc%d", cs.Svc[i]) != d.Service {
				continue
			}
			if len(d.Tags) > 0 && cs.Tags[i] != d.Tags[0] {
				continue
			}
			m = append(m, i)
		}
		if len(m) == 0 {
			return nil, nil, false // fabio rejects a weight command without a match; not part of this property
		}
		for _, i := range m {
			fixed[i] = d.Weight / float64(len(m))
		}
	}
	return fixed, refmodel.Weights(fixed), true
}

func c04Weights(c *ctx) {
	n := c.scale(c.pick(4000, 60000))
	c.R.Rule = "routes with 1-40 (sometimes hundreds/thousands of) targets and fixed/dynamic weight vectors (+ 'route weight' commands); effective weights vs reference normalisation, ring slot counts, exact per-cycle round-robin counts, rnd picker never picks zero weight. non-trivial = >=2 targets with at least one fixed weight; distinct by weight vector + commands"
	pickRR, pickRnd := route.Picker["rr"], route.Picker["rnd"]
	run := func(cs *c04Case, i int) {
		fixed, eff, ok := c04Expect(cs)
		if !ok {
			c.R.Count("skipped_weight_cmd_without_match", 1)
			return
		}
		c.R.Eval(1)
		in := map[string]any{"Case": cs}
		script := cs.script()
		var t route.Table
		var err error
		if p := safely(func() { t, err = newTable(script) }); p != "" {
			c.R.Violate("c04:panic-newtable", p, in)
			return
		}
		if err != nil {
			c.R.Violate("c04:rejected", err.Error(), in)
			return
		}
		rs := t["h.test"]
		if len(rs) != 1 || len(rs[0].Targets) != len(fixed) {
			c.R.Violate("c04:shape", fmt.Sprintf("want 1 route with %d targets, got %d routes", len(fixed), len(rs)), in)
			return
		}
		r0 := rs[0]
		k := len(fixed)
		nfixed := 0
		sum := 0.0
		idx := map[*route.Target]int{}
		for j, x := range r0.Targets {
			idx[x] = j
			if fixed[j] > 0 {
				nfixed++
			}
			sum += x.Weight
			if x.Weight < 0 || math.IsNaN(x.Weight) {
				c.R.Violate("c04:negative-weight", fmt.Sprintf("target %d weight %g", j, x.Weight), in)
				return
			}
			if math.Abs(x.Weight-eff[j]) > 1e-9 {
				c.R.Violate("c04:weight-differs", fmt.Sprintf("target %d (fixed %g): effective weight %g, reference %g", j, fixed[j], x.Weight, eff[j]), in)
				return
			}
		}
		if math.Abs(sum-1) > 1e-9 {
			c.R.Violate("c04:sum", fmt.Sprintf("weights sum to %g", sum), in)
			return
		}
		if k >= 2 && nfixed > 0 {
			c.R.Nontrivial(script)
		}
		if k < 12 && k >= 2 && c.R.WantSample() {
			c.R.Sample(map[string]any{"script": strings.Split(strings.TrimSpace(script), "\n"), "effective": eff})
		}
		// ring
		ring := r0.VerifRing()
		total := len(ring)
		if total == 0 {
			c.R.Violate("c04:empty-ring", "ring has no slots", in)
			return
		}
		slots := make([]int, k)
		for _, x := range ring {
			if x == nil {
				c.R.Violate("c04:nil-slot", "ring holds a nil slot", in)
				return
			}
			j, ok := idx[x]
			if !ok {
				c.R.Violate("c04:foreign-slot", "ring holds a target that is not on the route", in)
				return
			}
			slots[j]++
		}
		// resolution of 10,000 slots: every share is right to within one slot; targets too small for a slot of their own get
		// one all the same (never starved), which may lengthen the ring by that many slots
		bumped := 0
		for j := range eff {
			if eff[j] > 0 && eff[j]*10000 < 1 {
				bumped++
			}
		}
		// Targets below a slot's worth get a slot all the same, but of a ring fine enough that nobody else pays for it: as
		// long as the smallest share is at least a tenth of a slot (1e-5) every share is right to within 1.5 slots of
		// 10,000. Below that (hundreds of targets at a millionth each) the ring cannot be that fine and the overshoot of the
		// rounded-up targets is tolerated as before.
		minW := 1.0
		for j := range eff {
			if eff[j] > 0 && eff[j] < minW {
				minW = eff[j]
			}
		}
		tol := 1.5 / 10000
		if minW < 1e-5 || k > 1000 { // (routes with more than 1000 targets keep the coarse ring: building a finer one for every added target costs too much)
			tol = (1.5 + float64(bumped)) / 10000
		} else if bumped > 0 {
			c.R.Count("routes_with_sub_slot_targets_checked_strictly", 1)
		}
		for j := range slots {
			w := eff[j]
			real := r0.Targets[j].Weight
			// fixed weights that add up to 100% on paper (0.7+0.2+0.1, ten times 0.1) leave nothing for the dynamic targets:
			// the floating-point residue of the sum is not a share
			if w == 0 && real > 0 {
				c.R.Violate("c04:residue-weight", fmt.Sprintf("target %d: the fixed weights use up 100%%, yet this dynamic target has effective weight %g and %d slot(s)", j, real, slots[j]), in)
				return
			}
			switch {
			case w == 0 && slots[j] != 0:
				c.R.Violate("c04:zero-weight-has-slots", fmt.Sprintf("target %d weight 0 has %d slots", j, slots[j]), in)
				return
			case w > 0 && slots[j] == 0:
				c.R.Violate("c04:starved", fmt.Sprintf("target %d weight %g has no slot (ring %d)", j, w, total), in)
				return
			}
			if d := math.Abs(float64(slots[j])/float64(total) - w); d > tol {
				c.R.Violate("c04:share", fmt.Sprintf("target %d weight %g gets %d/%d slots (off by %g > %g)", j, w, slots[j], total, d, tol), in)
				return
			}
		}
		// round robin: every full cycle hands out exactly the slot counts
		cycles := 2
		if total > 20000 {
			cycles = 1
		}
		for cy := 0; cy < cycles; cy++ {
			got := make([]int, k)
			for q := 0; q < total; q++ {
				x := t.LookupHost("h.test", pickRR)
				if x == nil {
					c.R.Violate("c04:rr-nil", "lookup returned nil", in)
					return
				}
				got[idx[x]]++
			}
			for j := range got {
				if got[j] != slots[j] {
					c.R.Violate("c04:rr-cycle", fmt.Sprintf("cycle %d: target %d picked %d times, ring has %d slots of %d", cy, j, got[j], slots[j], total), in)
					return
				}
			}
		}
		c.R.Count("rr_lookups", int64(cycles*total))
		// random picker
		nrnd := 200 * total
		if nrnd > 100000 {
			nrnd = 100000
		}
		got := make([]int, k)
		for q := 0; q < nrnd; q++ {
			x := t.LookupHost("h.test", pickRnd)
			if x == nil {
				c.R.Violate("c04:rnd-nil", "lookup returned nil", in)
				return
			}
			got[idx[x]]++
		}
		c.R.Count("rnd_lookups", int64(nrnd))
		for j := range got {
			if eff[j] == 0 && r0.Targets[j].Weight == 0 && got[j] > 0 {
				c.R.Violate("c04:rnd-zero-picked", fmt.Sprintf("target %d with weight 0 picked %d times by rnd", j, got[j]), in)
				return
			}
			if exp := float64(nrnd) * float64(slots[j]) / float64(total); exp >= 60 && got[j] == 0 {
				c.R.Violate("c04:rnd-starved", fmt.Sprintf("target %d weight %g never picked in %d random lookups (expected ~%.0f)", j, eff[j], nrnd, exp), in)
				return
			}
		}
	}
	if c.Replay != "" {
		var in struct{ Case c04Case }
		loadReplay(c, &in)
		run(&in.Case, 0)
		return
	}
	parallel(c, n, func(r *rand.Rand, i int) { run(genC04(r, c.thorough()), i) })
	if c.thorough() && c.Scale >= 1 {
		c04LongRun(c)
	}
}

// c04LongRun: one installed table serving more than 2^32 round-robin picks on a route (a busy instance reaches that in
// days): the cycles around the 2^32nd pick must hand out exact shares like any other. Plain build of the thorough tier
// only (about 4.3e9 picks).
func c04LongRun(c *ctx) {
	pick := route.Picker["rr"]
	for _, k := range []int{3, 7} {
		var b strings.Builder
		for i := 0; i < k; i++ {
			fmt.Fprintf(&b, "route add svc long.test/ http://10.8.0.%d:80/\n", i+1)
		}
		t, err := newTable(b.String())
		if err != nil {
			c.R.Inconcl("long-run table: %v", err)
			return
		}
		r0 := t["long.test"][0]
		const wrap = uint64(1) << 32
		// stop a few cycles short of 2^32, at a cycle boundary
		n := wrap - wrap%uint64(k) - uint64(5*k)
		for i := uint64(0); i < n; i++ {
			pick(r0)
		}
		for cy := 0; cy < 12; cy++ {
			got := map[string]int{}
			for i := 0; i < k; i++ {
				got[pick(r0).URL.Host]++
			}
			c.R.Eval(int64(k))
			if len(got) != k {
				c.R.Violate("c04:share-after-2^32-picks", fmt.Sprintf("route with %d equal targets, cycle %d after %d picks on one table: the cycle's %d picks went to %v", k, cy, n, k, got), map[string]any{"targets": k})
				return
			}
		}
		c.R.Count("long_run_picks", int64(n))
		c.R.Nontrivial(fmt.Sprintf("long-run-%d", k))
	}
}
