package main

import (
	"bytes"
	"crypto/tls"
	"encoding/binary"
	"fmt"
	"io"
	"net"
	"os"
	"path/filepath"
	"strings"
	"sync"
	"time"

	"verif/harness/internal/fabioproc"
)

func init() { register("c10-wire", "C10", c10Wire) }

// c10Wire: SNI routing through the real binary. Genuine ClientHellos of growing size (a crypto/tls client with longer and
// longer ALPN lists: 0.3 - 16 KiB records) for a name that has a tcp route are sent to a tcp+sni listener and to an
// https+tcp+sni listener; routing on the name a standard TLS server sees in those bytes means: the connection is
// tunnelled to the tcp upstream, which receives exactly the hello.
func c10Wire(c *ctx) {
	c.R.Rule = "[c10-wire] the real binary with a tcp+sni and an https+tcp+sni listener; genuine single-record ClientHellos of 0.3-16 KiB (crypto/tls clients with growing ALPN lists, padded sizes around 4 KiB) naming a host with a tcp route, and ones naming a host without; the name a real crypto/tls server reads from the bytes decides: with a tcp route the connection must be tunnelled and the upstream must receive exactly the record and what follows it; without, the tcp upstream must see nothing. evaluations = connections; non-trivial = hello of more than 1400 bytes; distinct by (listener, record size, name)"
	// the tcp upstream: records what arrives first
	ln, err := net.Listen("tcp", "127.0.0.1:0")
	if err != nil {
		c.R.Inconcl("listen: %v", err)
		return
	}
	defer ln.Close()
	var mu sync.Mutex
	got := map[string][]byte{} // marker -> bytes before the marker
	go func() {
		for {
			cn, err := ln.Accept()
			if err != nil {
				return
			}
			go func() {
				defer cn.Close()
				cn.SetDeadline(time.Now().Add(10 * time.Second))
				var all []byte
				buf := make([]byte, 32<<10)
				for {
					n, err := cn.Read(buf)
					all = append(all, buf[:n]...)
					if i := bytes.Index(all, []byte("\nMARK:")); i >= 0 {
						if j := bytes.IndexByte(all[i+1:], '\n'); j >= 0 {
							mu.Lock()
							got[string(all[i+6:i+1+j])] = append([]byte(nil), all[:i]...)
							mu.Unlock()
							cn.Write([]byte("ACK\n"))
							return
						}
					}
					if err != nil {
						return
					}
				}
			}()
		}
	}()
	certDir := filepath.Join(c.Dir, "c10wcert")
	os.MkdirAll(certDir, 0o755)
	crt := c11Make("l-cert.pem", "web.test", "web.test")
	os.WriteFile(filepath.Join(certDir, "l-cert.pem"), crt.CertPEM, 0o644)
	os.WriteFile(filepath.Join(certDir, "l-key.pem"), crt.KeyPEM, 0o600)
	sniA, mixA := fmt.Sprintf("127.0.0.1:%d", freePort()), fmt.Sprintf("127.0.0.1:%d", freePort())
	rg, err := newRig(c, "sni", []string{"-proxy.addr", fmt.Sprintf("%s;proto=tcp+sni,%s;proto=https+tcp+sni;cs=cs1", sniA, mixA), "-proxy.cs", "cs=cs1;type=path;cert=" + certDir, "-log.level", "WARN"})
	if err != nil {
		c.R.Inconcl("cannot start fabio: %v", err)
		return
	}
	defer rg.close()
	rg.setManual(fmt.Sprintf("route add big big.test/ tcp://%s opts \"proto=tcp\"\nroute add web web.test/ http://127.0.0.1:9/", ln.Addr()))
	if err := rg.barrier(); err != nil {
		c.R.Inconcl("barrier: %v", err)
		return
	}
	for _, a := range []string{sniA, mixA} {
		if !fabioproc.WaitListening(a, 20*time.Second) {
			c.R.Inconcl("listener %s did not come up", a)
			return
		}
	}
	if err := waitTLSServing("warmup.invalid", mixA); err != nil { // not a tcp route's name: the https side answers
		c.R.Inconcl("%v", err)
		return
	}
	// hellos of growing size
	alpn := func(n int) []string {
		var out []string
		for i := 0; len(out)*24 < n; i++ {
			out = append(out, fmt.Sprintf("proto-%04d-%s", i, strings.Repeat("x", 12)))
		}
		return out
	}
	var sizes []int
	for _, n := range []int{0, 600, 1400, 2600, 3400, 3700, 3800, 3900, 4000, 4100, 4300, 6000, 9000, 12000, 15000} {
		sizes = append(sizes, n)
	}
	seq := 0
	for rep := 0; rep < c.scale(c.pick(2, 20)); rep++ {
		for _, name := range []string{"big.test", "BIG.Test", "other.test"} {
			for _, n := range sizes {
				rec, err := captureHello(&tls.Config{ServerName: name, InsecureSkipVerify: true, NextProtos: alpn(n)})
				if err != nil || len(rec) < 6 {
					continue
				}
				stdName, stdOK := stdServerName(rec)
				if !stdOK {
					continue
				}
				recLen := int(binary.BigEndian.Uint16(rec[3:5]))
				for _, l := range []struct{ kind, addr string }{{"tcp+sni", sniA}, {"https+tcp+sni", mixA}} {
					seq++
					marker := fmt.Sprintf("m%d", seq)
					cn, err := net.DialTimeout("tcp", l.addr, 5*time.Second)
					if err != nil {
						c.R.Violate("c10w:connect-failed", err.Error(), nil)
						return
					}
					cn.SetDeadline(time.Now().Add(5 * time.Second))
					cn.Write(rec)
					cn.Write([]byte("\nMARK:" + marker + "\n"))
					ack, _ := io.ReadAll(io.LimitReader(cn, 4))
					cn.Close()
					c.R.Eval(1)
					if len(rec) > 1400 {
						c.R.Nontrivial(fmt.Sprintf("%s|%d|%s", l.kind, len(rec), name))
					}
					time.Sleep(5 * time.Millisecond)
					mu.Lock()
					seen, tunnelled := got[marker]
					mu.Unlock()
					in := map[string]any{"listener": l.kind, "server_name": name, "record_bytes": recLen + 5}
					sizeClass := "record<=4091"
					if recLen+5 > 4096 {
						sizeClass = "record>4091"
					}
					wantTunnel := strings.EqualFold(stdName, "big.test")
					switch {
					case wantTunnel && !tunnelled:
						c.R.Violate("c10w:not-routed-on-the-name:"+l.kind+":"+sizeClass, fmt.Sprintf("%s listener: a well-formed ClientHello of %d bytes names %q (that is what crypto/tls reads from it), which has a tcp route, but the connection was not tunnelled to it (answer %q)", l.kind, recLen+5, stdName, ack), in)
					case wantTunnel && !bytes.Equal(seen, rec):
						c.R.Violate("c10w:hello-altered:"+l.kind, fmt.Sprintf("%s listener: the upstream received %d bytes before the marker, the hello has %d", l.kind, len(seen), len(rec)), in)
					case !wantTunnel && tunnelled:
						c.R.Violate("c10w:routed-on-another-name:"+l.kind, fmt.Sprintf("%s listener: the ClientHello names %q, which has no tcp route, but the connection was tunnelled to big.test's upstream", l.kind, stdName), in)
					}
					if c.R.WantSample() && len(rec) > 1400 {
						c.R.Sample(map[string]any{"listener": l.kind, "record_bytes": recLen + 5, "server_name": stdName, "tunnelled": tunnelled})
					}
				}
			}
		}
	}
}
