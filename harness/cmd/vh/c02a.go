package main

import (
	"fmt"
	"math/rand"
	"net/http"
	"net/url"
	"runtime"
	"strings"
	"sync"
	"sync/atomic"
	"time"

	"github.com/anishathalye/porcupine"
	"github.com/fabiolb/fabio/route"
)

func init() { register("c02-atomic", "C02", c02Atomic) }

// generation g has c02Hosts(g) hosts, each with c02Paths(g) routes of c02Targets(g) targets, all tagged gen=g.
func c02Hosts(g int) int   { return 2 + g%5 }
func c02Paths(g int) int   { return 1 + g%3 }
func c02Targets(g int) int { return 1 + g%4 }

func c02Script(g int) string {
	var b strings.Builder
	for h := 0; h < c02Hosts(g); h++ {
		for p := 0; p < c02Paths(g); p++ {
			for t := 0; t < c02Targets(g); t++ {
				path := "/"
				if p > 0 {
					path = fmt.Sprintf("/p%d", p)
				}
				fmt.Fprintf(&b, "route add svc-g%d h%d.test%s http://10.%d.%d.%d:80/ tags \"gen=%d\"\n", g, h, path, g%250, h, p*16+t, g)
			}
		}
	}
	return b.String()
}

// c02Inspect walks a table as a reader would and returns its generation, or a problem.
func c02Inspect(t route.Table, pick func(*route.Route) *route.Target) (g int, problem string) {
	g = -1
	for _, rs := range t {
		for _, r := range rs {
			for _, x := range r.Targets {
				var tg int
				if len(x.Tags) != 1 {
					return g, fmt.Sprintf("target %s has tags %v", x.URL, x.Tags)
				}
				if _, err := fmt.Sscanf(x.Tags[0], "gen=%d", &tg); err != nil {
					return g, fmt.Sprintf("target %s has tag %q", x.URL, x.Tags[0])
				}
				if g == -1 {
					g = tg
				} else if g != tg {
					return g, fmt.Sprintf("table mixes generations %d and %d", g, tg)
				}
			}
		}
	}
	if g == -1 {
		if len(t) == 0 {
			return -1, "" // the initial empty table
		}
		return g, "table has hosts but no targets"
	}
	if len(t) != c02Hosts(g) {
		return g, fmt.Sprintf("generation %d table has %d hosts, want %d", g, len(t), c02Hosts(g))
	}
	for h, rs := range t {
		if len(rs) != c02Paths(g) {
			return g, fmt.Sprintf("generation %d host %s has %d routes, want %d", g, h, len(rs), c02Paths(g))
		}
		for _, r := range rs {
			if len(r.Targets) != c02Targets(g) {
				return g, fmt.Sprintf("generation %d route %s%s has %d targets, want %d", g, h, r.Path, len(r.Targets), c02Targets(g))
			}
		}
	}
	return g, ""
}

type c02Op struct {
	Set bool
	Gen int // generation written (or -2 for Set(nil)); for Get: unused
}

func c02Atomic(c *ctx) {
	nh := c.scale(c.pick(2000, 40000))
	c.R.Rule = "histories of 4 writers (SetTable of complete generation-tagged tables, sometimes SetTable(nil)) and 12 readers (GetTable + full walk + lookups); every read table must be one complete generation; each history checked with porcupine against a register model in which Set(nil) is a no-op. evaluations = operations; non-trivial = history in which a Get overlapped a Set; distinct by history number"
	const G = 96
	tables := make([]route.Table, G)
	for g := range tables {
		t, err := newTable(c02Script(g))
		if err != nil {
			c.R.Inconcl("cannot build generation table: %v", err)
			return
		}
		tables[g] = t
	}
	pick := route.Picker["rr"]
	match := route.Matcher["prefix"]
	gc := route.NewGlobCache(64)
	model := porcupine.Model{
		Init: func() any { return 0 },
		Step: func(st, in, out any) (bool, any) {
			op := in.(c02Op)
			if op.Set {
				if op.Gen == -2 {
					return true, st
				}
				return true, op.Gen
			}
			return out.(int) == st.(int), st
		},
		DescribeOperation: func(in, out any) string {
			op := in.(c02Op)
			if op.Set {
				return fmt.Sprintf("Set(%d)", op.Gen)
			}
			return fmt.Sprintf("Get()->%d", out.(int))
		},
	}
	start := time.Now()
	now := func() int64 { return int64(time.Since(start)) }
	var okH, illegalH, unknownH int64
	for h := 0; h < nh; h++ {
		if h%2 == 1 {
			runtime.GOMAXPROCS(4)
		} else {
			runtime.GOMAXPROCS(16)
		}
		route.SetTable(tables[0])
		var mu sync.Mutex
		var ops []porcupine.Operation
		var wg sync.WaitGroup
		var problem atomic.Value
		gens := c.rng(int64(h)).Perm(G - 1)
		var sets atomic.Int64
		for w := 0; w < 4; w++ {
			wg.Add(1)
			go func(w int) {
				defer wg.Done()
				r := rand.New(rand.NewSource(int64(h*100 + w)))
				for k := 0; k < 5; k++ {
					g := gens[w*5+k] + 1
					var t route.Table = tables[g]
					op := c02Op{Set: true, Gen: g}
					if r.Intn(6) == 0 {
						t, op.Gen = nil, -2
					}
					t0 := now()
					route.SetTable(t)
					t1 := now()
					sets.Add(1)
					mu.Lock()
					ops = append(ops, porcupine.Operation{ClientId: w, Input: op, Call: t0, Output: 0, Return: t1})
					mu.Unlock()
					if r.Intn(2) == 0 {
						runtime.Gosched()
					}
				}
			}(w)
		}
		for rd := 0; rd < 12; rd++ {
			wg.Add(1)
			go func(rd int) {
				defer wg.Done()
				for k := 0; k < 4; k++ {
					t0 := now()
					t := route.GetTable()
					t1 := now()
					g, p := c02Inspect(t, pick)
					if p != "" {
						problem.Store(p)
						return
					}
					// lookups on the snapshot must answer from the same generation
					for hh := 0; hh < c02Hosts(g); hh++ {
						req := &http.Request{Host: fmt.Sprintf("h%d.test", hh), URL: &url.URL{Path: "/p1/x"}, Header: http.Header{}}
						x := t.Lookup(req, "", pick, match, gc, false)
						if x == nil || x.Tags[0] != fmt.Sprintf("gen=%d", g) {
							problem.Store(fmt.Sprintf("lookup on generation %d snapshot for %s returned %v", g, req.Host, x))
							return
						}
					}
					mu.Lock()
					ops = append(ops, porcupine.Operation{ClientId: 4 + rd, Input: c02Op{}, Call: t0, Output: g, Return: t1})
					mu.Unlock()
				}
			}(rd)
		}
		wg.Wait()
		c.R.Eval(int64(len(ops)))
		if p, _ := problem.Load().(string); p != "" {
			c.R.Violate("c02a:mixed-or-partial-table", p, map[string]any{"history": h})
			continue
		}
		// overlap statistic
		overlap := false
		for _, a := range ops {
			if a.Input.(c02Op).Set {
				continue
			}
			for _, b := range ops {
				if b.Input.(c02Op).Set && a.Call < b.Return && b.Call < a.Return {
					overlap = true
				}
			}
		}
		if overlap {
			c.R.Nontrivial(fmt.Sprintf("h%d", h))
		}
		res, info := porcupine.CheckOperationsVerbose(model, ops, 60*time.Second)
		switch res {
		case porcupine.Ok:
			okH++
		case porcupine.Illegal:
			illegalH++
			c.R.Violate("c02a:not-linearizable", "SetTable/GetTable history is not linearizable as a register (Set(nil) no-op): "+c02Describe(model, ops), map[string]any{"history": h})
			_ = info
		default:
			unknownH++
		}
		if h < 2 {
			c.R.Sample(map[string]any{"history": c02Describe(model, ops)})
		}
	}
	runtime.GOMAXPROCS(16)
	c.R.SetCounter("porcupine_ok", okH)
	c.R.SetCounter("porcupine_illegal", illegalH)
	c.R.SetCounter("porcupine_unknown", unknownH)
	c.R.SetCounter("histories", int64(nh))
	if unknownH > 0 {
		c.R.Inconcl("%d histories: porcupine timed out", unknownH)
	}
}

func c02Describe(m porcupine.Model, ops []porcupine.Operation) string {
	var b strings.Builder
	for i, o := range ops {
		if i >= 80 {
			b.WriteString("...")
			break
		}
		fmt.Fprintf(&b, "[c%d %s @%d-%d] ", o.ClientId, m.DescribeOperation(o.Input, o.Output), o.Call, o.Return)
	}
	return b.String()
}
