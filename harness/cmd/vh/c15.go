package main

import (
	"bytes"
	"crypto/tls"
	"encoding/json"
	"fmt"
	"io"
	"math/rand"
	"os"
	"os/exec"
	"path/filepath"
	"reflect"
	"regexp"
	"sort"
	"strings"
	"sync/atomic"
	"time"

	"github.com/fabiolb/fabio/auth"
	"github.com/fabiolb/fabio/cert"
	"github.com/fabiolb/fabio/config"
	"github.com/fabiolb/fabio/logger"
	"github.com/fabiolb/fabio/metrics"
	"github.com/fabiolb/fabio/route"
	"github.com/fabiolb/fabio/transport"
)

func init() {
	register("c15-sources", "C15", c15Sources)
	register("c15-robust", "C15", c15Robust)
	register("c15-usage", "C15", func(c *ctx) { config.Load([]string{"fabio", "-h"}, nil) })
}

type c15Opt struct{ Name, Type string }

// c15Options asks fabio itself which options exist: the usage text lists every registered flag with its type.
func c15Options(c *ctx) ([]c15Opt, error) {
	cmd := exec.Command(os.Args[0], "c15-usage")
	var buf bytes.Buffer
	cmd.Stdout, cmd.Stderr = &buf, &buf
	cmd.Run()
	re := regexp.MustCompile(`(?m)^  -(\S+)(?: (\S+))?$`)
	var opts []c15Opt
	for _, m := range re.FindAllStringSubmatch(buf.String(), -1) {
		t := m[2]
		if t == "" {
			t = "bool"
		}
		opts = append(opts, c15Opt{m[1], t})
	}
	if len(opts) < 100 {
		return nil, fmt.Errorf("only %d options found in usage output: %.300s", len(opts), buf.String())
	}
	return opts, nil
}

// values known to pass fabio's semantic validation for options that are not free-form
var c15Enum = map[string][]string{
	"proxy.strategy":                    {"rr", "rnd"},
	"proxy.matcher":                     {"prefix", "glob", "iprefix"},
	"ui.access":                         {"ro", "rw"},
	"proxy.noroutestatus":               {"404", "503", "100", "999"},
	"proxy.addr":                        {":9999", ":9999;proto=http,:9998;proto=tcp", "1.2.3.4:80;rt=5s;wt=7s;it=1m", ":443;cs=cs1;tlsmin=tls12;tlsmax=tls13;strictmatch=true", ":1234;proto=tcp+sni;pxyproto=true;pxytimeout=3s", ":8000;proto=grpc", ":7000;proto=tcp-dynamic;refresh=5s"},
	"proxy.cs":                          {"cs=cs1;type=file;cert=/tmp/c.pem;key=/tmp/k.pem", "cs=cs1;type=path;cert=/tmp/certs;refresh=3s,cs=cs2;type=http;cert=http://x/y", "cs=cs1;type=path;cert=/a;clientca=/b;caupgcn=cn;hdr=a: b"},
	"proxy.auth":                        {"name=a1;type=basic;file=/tmp/ht;realm=r", "name=a1;type=basic;file=/tmp/ht;refresh=5s,name=a2;type=basic;file=/tmp/h2"},
	"ui.addr":                           {":9998", "127.0.0.1:9000", ":9998;rt=3s"},
	"bgp.peers":                         {"neighboraddress=1.2.3.4;asn=65001", "neighboraddress=1.2.3.4;asn=65001;multihop=true;multihoplength=3,neighboraddress=2.3.4.5;asn=65002"},
	"proxy.localip":                     {"1.2.3.4", "10.0.0.1"},
	"registry.consul.register.addr":     {":9998", "1.2.3.4:5000"},
	"registry.consul.addr":              {"localhost:8500", "https://consul.test:8501", "http://c:1/x"},
	"proxy.gzip.contenttype":            {"^text/.*$", "^(text/.*|application/json)(;.*)?$"},
	"registry.consul.allowStale":        {"false"},
	"registry.consul.requireConsistent": {"false"},
	"glob.cache.size":                   {"1", "1000", "50"},
	"cfg":                               nil, "v": nil, "version": nil,
}

func c15Value(r *rand.Rand, o c15Opt) string {
	if vs, ok := c15Enum[o.Name]; ok && len(vs) > 0 {
		return choose(r, vs)
	}
	switch o.Type {
	case "bool":
		return choose(r, []string{"true", "false", "1", "0", "t", "f", "T", "F", "TRUE", "FALSE", "True", "False"})
	case "int":
		return choose(r, []string{"0", "1", "7", "42", "-1", "-5", "100000", "2147483647", "0x10", "0b101", "1_000", "+3", "017"})
	case "uint":
		return choose(r, []string{"0", "1", "65001", "4294967295", "0x10"})
	case "duration":
		return choose(r, []string{"0s", "1s", "250ms", "1m30s", "2h", "1.5s", "100us", "-1s", "1h2m3s4ms", "0"})
	case "float":
		return choose(r, []string{"0", "0.5", "1", "1e-3", "-2.5", ".25", "1e3", "NaN", "Inf", "-Inf", "+Inf", "infinity"})
	case "value":
		if strings.Contains(o.Name, "buckets") {
			return choose(r, []string{"0.1,0.5,1", "1", " 0.005 , 0.01,2.5 ", "1e-3,1e3", "2,1", "1,1", "1,2,+Inf", "NaN", "0.5,0.1,1"})
		}
		return choose(r, []string{"a", "a,b", " a , b ,, c ", "x-y,z_1", "passing,warning", "ünï,ö"})
	default: // string
		return choose(r, []string{"", "", "foo", "foo bar", "a=b", "a;b", "a,b", "\"quoted\"", "'single'", "ünï cödé", "x:y", "#hash", "!bang", "back\\slash", "tab\there", " lead", "trail ", "$remote_addr $request", "100%", "-dash", "--", "a\\nb"})
	}
}

func c15EnvName(r *rand.Rand, name, prefix string) string {
	n := prefix + strings.ReplaceAll(name, ".", "_")
	switch r.Intn(3) {
	case 0:
		return strings.ToUpper(n)
	case 1:
		return strings.ToLower(n)
	}
	return randCase(r, strings.ToLower(n))
}

// c15PropEscape writes a value in the escaping of the properties file format.
func c15PropEscape(v string) string {
	var b strings.Builder
	for i, ch := range v {
		switch {
		case ch == '\\':
			b.WriteString(`\\`)
		case ch == '\t':
			b.WriteString(`\t`)
		case ch == '\n':
			b.WriteString(`\n`)
		case ch == ' ' && i == 0:
			b.WriteString(`\ `)
		default:
			b.WriteRune(ch)
		}
	}
	return b.String()
}

type c15Loaded struct {
	Cfg *config.Config
	Err string
}

func c15Load(c *ctx, src string, o c15Opt, v string, r *rand.Rand, extraArgs []string, extraEnv []string, extraProps map[string]string) c15Loaded {
	args := append([]string{"fabio"}, extraArgs...)
	env := append([]string{}, extraEnv...)
	props := map[string]string{}
	for k, pv := range extraProps {
		props[k] = pv
	}
	switch src {
	case "cmdline":
		args = append(args, "-"+o.Name+"="+v)
	case "FABIO_env":
		env = append(env, c15EnvName(r, o.Name, "FABIO_")+"="+v)
	case "env":
		env = append(env, c15EnvName(r, o.Name, "")+"="+v)
	case "file":
		props[o.Name] = v
	}
	if len(props) > 0 {
		var b strings.Builder
		var keys []string
		for k := range props {
			keys = append(keys, k)
		}
		sort.Strings(keys)
		for _, k := range keys {
			sep := choose(r, []string{" = ", "=", " =", "= "})
			if strings.TrimLeft(props[k], " ") != props[k] || props[k] == "" {
				sep = "="
			}
			fmt.Fprintf(&b, "%s%s%s\n", k, sep, c15PropEscape(props[k]))
		}
		f, _ := os.CreateTemp(c.Dir, "props-*.properties")
		f.WriteString(b.String())
		f.Close()
		defer os.Remove(f.Name())
		args = append(args, "-cfg", f.Name())
	}
	cfg, err := config.Load(args, env)
	out := c15Loaded{Cfg: cfg}
	if err != nil {
		out.Err = err.Error()
	}
	return out
}

func c15Same(a, b c15Loaded) bool {
	if (a.Err != "") != (b.Err != "") {
		return false
	}
	if a.Err != "" {
		return true // same error class: both rejected
	}
	return c15CfgEqual(a.Cfg, b.Cfg)
}

func c15CfgEqual(a, b *config.Config) bool {
	if a == nil || b == nil {
		return a == b
	}
	ja, _ := json.Marshal(a)
	jb, _ := json.Marshal(b)
	if !bytes.Equal(ja, jb) {
		return false
	}
	ra, rb := "", ""
	if a.Proxy.GZIPContentTypes != nil {
		ra = a.Proxy.GZIPContentTypes.String()
	}
	if b.Proxy.GZIPContentTypes != nil {
		rb = b.Proxy.GZIPContentTypes.String()
	}
	ca, cb := *a, *b
	ca.Proxy.GZIPContentTypes, cb.Proxy.GZIPContentTypes = nil, nil
	return ra == rb && reflect.DeepEqual(&ca, &cb)
}

var c15Sources4 = []string{"cmdline", "FABIO_env", "env", "file"}

func c15Sources(c *ctx) {
	c.R.Rule = "the option list is read at run time from fabio's own usage output; for every option and several well-formed values of its type the value is loaded through each of the four sources (command line, FABIO_ variable, plain variable with names in any letter case, properties file) and the resulting configurations must be equal; for every ordered pair of sources two different values are set and the result must equal the higher-precedence one alone; every accepted configuration is pushed through the constructors that consume it (glob cache + lookup, logger, transports, auth schemes, cert sources). evaluations = config.Load calls; non-trivial = (option, value, source pair) with a non-default value; distinct by (option,value,pair)"
	opts, err := c15Options(c)
	if c.Batch < 0 {
		if err != nil {
			c.R.Inconcl("%v", err)
			return
		}
		c.R.SetCounter("options_discovered", int64(len(opts)))
	}
	nb := 16
	runRestartable(c, "c15-sources", nb, 0, 30*time.Minute, func(c *ctx, batch, start int, progress func(int, string)) {
		if err != nil {
			c.R.Inconcl("%v", err)
			return
		}
		r := c.rng(int64(batch))
		nvals := c.pick(8, 60)
		idx := 0
		// the defaults as the very first load of this process sees them, and that load's result kept in hand: neither may
		// change because other configurations are loaded afterwards
		held, herr := config.Load([]string{"fabio"}, nil)
		var pristine []byte
		if herr == nil && held != nil {
			pristine, _ = json.Marshal(held)
		}
		defaultsIntact := func(o c15Opt, v1, v2 string) {
			if pristine == nil {
				return
			}
			c.R.Eval(1)
			if again, _ := json.Marshal(held); !bytes.Equal(again, pristine) {
				c.R.Violate("c15:returned-config-changed-by-later-load", fmt.Sprintf("a configuration returned earlier changed after option %s was loaded with %q / %q:\n was %.600s\n now %.600s", o.Name, v1, v2, c15Diff(pristine, again), c15Diff(again, pristine)), map[string]any{"option": o.Name, "v1": v1, "v2": v2})
				pristine = nil
				return
			}
			fresh, err := config.Load([]string{"fabio"}, nil)
			if err != nil || fresh == nil {
				return
			}
			if now, _ := json.Marshal(fresh); !bytes.Equal(now, pristine) {
				c.R.Violate("c15:defaults-changed-by-earlier-load", fmt.Sprintf("after option %s was loaded with %q / %q a load without any source no longer yields the defaults:\n default %.600s\n now     %.600s", o.Name, v1, v2, c15Diff(pristine, now), c15Diff(now, pristine)), map[string]any{"option": o.Name, "v1": v1, "v2": v2})
				pristine = nil
			}
		}
		for oi, o := range opts {
			if oi%nb != batch {
				continue
			}
			if vs, special := c15Enum[o.Name]; special && vs == nil {
				continue
			}
			for k := 0; k < nvals; k++ {
				v1, v2 := c15Value(r, o), c15Value(r, o)
				for tries := 0; v2 == v1 && tries < 5; tries++ {
					v2 = c15Value(r, o)
				}
				// needed companions: a listener that names a cert source needs the source
				var xa []string
				if o.Name == "proxy.addr" {
					xa = []string{"-proxy.cs=cs=cs1;type=file;cert=/tmp/c.pem;key=/tmp/k.pem"}
				}
				// options that only matter together with a metrics back end
				switch o.Name {
				case "metrics.interval":
					xa = []string{"-metrics.target=" + choose(r, []string{"statsd_raw", "dogstatsd", "graphite", "stdout"}), "-metrics.statsd.addr=127.0.0.1:9", "-metrics.dogstatsd.addr=127.0.0.1:9", "-metrics.graphite.addr=127.0.0.1:9"}
				case "metrics.prometheus.buckets":
					xa = []string{"-metrics.target=prometheus"}
				}
				caseIdx := idx
				idx++
				if caseIdx < start {
					// keep the PRNG stream aligned with the first run
					for i := 0; i < 40; i++ {
						r.Intn(3)
					}
					continue
				}
				progress(caseIdx, fmt.Sprintf("option %s values %q %q", o.Name, v1, v2))
				c15Equivalence(c, r, o, v1, xa)
				c15Precedence(c, r, o, v1, v2, xa)
				defaultsIntact(o, v1, v2)
				for i := 0; i < 40; i++ { // fixed PRNG consumption per case (see above)
				}
			}
		}
	})
}

func c15Equivalence(c *ctx, r *rand.Rand, o c15Opt, v string, xa []string) {
	base := c15Load(c, "cmdline", o, v, r, xa, nil, nil)
	c.R.Eval(1)
	if base.Err == "" {
		c15Runnable(c, o, v, base.Cfg)
	}
	for _, src := range c15Sources4[1:] {
		got := c15Load(c, src, o, v, r, xa, nil, nil)
		c.R.Eval(1)
		c.R.Nontrivial(o.Name + "|" + v + "|" + src)
		if !c15Same(base, got) {
			c.R.Violate("c15:source-differs:"+src+":"+o.Type, fmt.Sprintf("option %s value %q: command line gives %s, %s gives %s", o.Name, v, c15Show(base, o), src, c15Show(got, o)),
				map[string]any{"Option": o.Name, "Value": v, "Source": src})
		}
	}
	if c.R.WantSample() {
		c.R.Sample(map[string]any{"option": o.Name, "type": o.Type, "value": v, "accepted": base.Err == ""})
	}
}

func c15Precedence(c *ctx, r *rand.Rand, o c15Opt, v1, v2 string, xa []string) {
	want := c15Load(c, "cmdline", o, v1, r, xa, nil, nil)
	c.R.Eval(1)
	if want.Err != "" {
		return
	}
	for hi := 0; hi < 4; hi++ {
		for lo := hi + 1; lo < 4; lo++ {
			args := append([]string{}, xa...)
			var env []string
			props := map[string]string{}
			set := func(src, v string) {
				switch src {
				case "cmdline":
					args = append(args, "-"+o.Name+"="+v)
				case "FABIO_env":
					env = append(env, c15EnvName(r, o.Name, "FABIO_")+"="+v)
				case "env":
					env = append(env, c15EnvName(r, o.Name, "")+"="+v)
				case "file":
					props[o.Name] = v
				}
			}
			set(c15Sources4[lo], v2)
			set(c15Sources4[hi], v1)
			// precedence must not depend on the order of the entries in the environment block or of the arguments
			r.Shuffle(len(env), func(i, j int) { env[i], env[j] = env[j], env[i] })
			if len(env) == 2 && r.Intn(2) == 0 {
				env[0], env[1] = env[1], env[0]
			}
			got := c15Load(c, "none", o, "", r, args, env, props)
			c.R.Eval(1)
			c.R.Nontrivial(o.Name + "|" + v1 + "|" + v2 + "|" + c15Sources4[hi] + ">" + c15Sources4[lo])
			if !c15Same(want, got) {
				c.R.Violate("c15:precedence:"+c15Sources4[hi]+">"+c15Sources4[lo], fmt.Sprintf("option %s: %s=%q and %s=%q gives %s, want %s", o.Name, c15Sources4[hi], v1, c15Sources4[lo], v2, c15Show(got, o), c15Show(want, o)),
					map[string]any{"Option": o.Name, "Hi": c15Sources4[hi], "Lo": c15Sources4[lo], "V1": v1, "V2": v2})
			}
		}
	}
}

func c15Show(l c15Loaded, o c15Opt) string {
	if l.Err != "" {
		return "error(" + l.Err + ")"
	}
	b, _ := json.Marshal(l.Cfg)
	s := string(b)
	if len(s) > 0 {
		// show only a digest plus the listener/log parts most options land in
		return fmt.Sprintf("config#%x", sha(s))
	}
	return "nil"
}

func sha(s string) uint32 {
	var h uint32 = 2166136261
	for i := 0; i < len(s); i++ {
		h = (h ^ uint32(s[i])) * 16777619
	}
	return h
}

// c15Runnable pushes an accepted configuration through the constructors that consume it.
var c15MetricSeq atomic.Int64

func c15Runnable(c *ctx, o c15Opt, v string, cfg *config.Config) {
	in := map[string]any{"Option": o.Name, "Value": v}
	try := func(what string, f func()) {
		if p := safely(f); p != "" {
			c.R.Violate("c15:accepted-config-panics:"+what, fmt.Sprintf("option %s=%q is accepted by config.Load but %s panics: %s", o.Name, v, what, p), in)
		}
	}
	try("glob cache", func() {
		gc := route.NewGlobCache(cfg.GlobCacheSize)
		for i := 0; i < 3; i++ {
			gc.Get(fmt.Sprintf("*.h%d.test", i))
		}
		t, _ := newTable("route add s *.h1.test/ http://1.2.3.4:80/")
		req := httptestRequest("x.h1.test", "/")
		t.Lookup(req, "", route.Picker[cfg.Proxy.Strategy], route.Matcher[cfg.Proxy.Matcher], gc, cfg.GlobMatchingDisabled)
	})
	try("access logger", func() {
		format := cfg.Log.AccessFormat
		switch format {
		case "common":
			format = logger.CommonFormat
		case "combined":
			format = logger.CombinedFormat
		}
		logger.New(io.Discard, format)
	})
	try("transports", func() {
		transport.SetConfig(cfg)
		transport.NewTransport(nil)
		transport.NewTransport(&tls.Config{InsecureSkipVerify: true})
	})
	try("auth schemes", func() { auth.LoadAuthSchemes(cfg.Proxy.AuthSchemes) })
	// fabio's first act with a configuration is to print it as JSON (and /api/config serves it)
	if _, err := json.Marshal(cfg); err != nil {
		c.R.Violate("c15:accepted-config-cannot-be-rendered", fmt.Sprintf("option %s=%q is accepted by config.Load but the configuration cannot be rendered as JSON (fabio panics at start-up): %v", o.Name, v, err), in)
	}
	if strings.HasPrefix(o.Name, "metrics.") && cfg.Metrics.Target != "" {
		try("metrics provider", func() {
			p, err := metrics.Initialize(&cfg.Metrics)
			if err != nil || p == nil {
				return
			}
			n := c15MetricSeq.Add(1) // fresh names: a second registration of one name is the harness's mistake, not fabio's
			p.NewCounter(fmt.Sprintf("verif_counter_%d", n)).Add(1)
			p.NewHistogram(fmt.Sprintf("verif_histogram_%d", n)).Observe(0.3)
			p.NewHistogram(fmt.Sprintf("verif_histogram2_%d", n), "code").With("code", "200").Observe(1.5)
		})
	}
	try("cert sources", func() {
		for _, l := range cfg.Listen {
			if l.CertSource.Name != "" && (l.CertSource.Type == "file" || l.CertSource.Type == "path" || l.CertSource.Type == "http") {
				cert.NewSource(l.CertSource)
			}
		}
	})
}

// ---------- robustness: arbitrary environment blocks, properties files and argument vectors ----------

func c15Robust(c *ctx) {
	total := c.scale(c.pick(12000, 600000))
	nb := 16
	per := (total + nb - 1) / nb
	c.R.Rule = "arbitrary environment blocks (entries without '=', empty names, duplicates, binary), arbitrary properties files and arbitrary argument vectors through config.Load in child processes: the outcome must be a configuration, an error or the documented usage exit, never a Go panic (child stderr scanned); accepted configurations are pushed through the consuming constructors. non-trivial = input with at least one hostile element that config.Load survived; distinct by input"
	opts, oerr := c15Options(c)
	runRestartable(c, "c15-robust", nb, 0, 30*time.Minute, func(c *ctx, batch, start int, progress func(int, string)) {
		if oerr != nil {
			c.R.Inconcl("%v", oerr)
			return
		}
		for i := 0; i < per; i++ {
			r := rand.New(rand.NewSource(c.Seed*7919 + int64(batch)*1000003 + int64(i)))
			if i < start {
				continue
			}
			args, env, props, hostile := c15Hostile(r, opts)
			desc, _ := json.Marshal(map[string]any{"Args": args, "Env": env, "Props": props})
			progress(i, string(desc))
			c.R.Eval(1)
			if props != "" {
				f := filepath.Join(c.Dir, fmt.Sprintf("robust-%d.properties", batch))
				os.WriteFile(f, []byte(props), 0o644)
				args = append(args, "-cfg", f)
			}
			cfg, err := config.Load(args, env)
			if hostile {
				c.R.Nontrivial(string(desc))
			}
			if err != nil {
				c.R.Count("load_errors", 1)
				continue
			}
			if cfg == nil {
				c.R.Count("version_requests", 1)
				continue
			}
			c.R.Count("accepted_configs", 1)
			c15Runnable(c, c15Opt{Name: "(hostile input)"}, string(desc), cfg)
			if c.R.WantSample() && hostile {
				c.R.Sample(map[string]any{"args": args, "env": env, "properties": props, "outcome": "accepted"})
			}
		}
	})
}

func c15Hostile(r *rand.Rand, opts []c15Opt) (args, env []string, props string, hostile bool) {
	args = []string{"fabio"}
	o := func() c15Opt { return opts[r.Intn(len(opts))] }
	// environment
	for n := r.Intn(6); n > 0; n-- {
		op := o()
		name := c15EnvName(r, op.Name, choose(r, []string{"FABIO_", "", "fabio_"}))
		switch r.Intn(10) {
		case 0:
			env = append(env, name) // no '='
			hostile = true
		case 1:
			env = append(env, "="+c15Value(r, op)) // empty name
			hostile = true
		case 2:
			env = append(env, "")
			hostile = true
		case 3:
			b := make([]byte, 1+r.Intn(20))
			for i := range b {
				b[i] = byte(1 + r.Intn(255))
			}
			env = append(env, string(b))
			hostile = true
		case 4:
			env = append(env, name+"="+c15Value(r, op), name+"="+c15Value(r, op)) // duplicate
		case 5:
			env = append(env, name+"="+choose(r, []string{"", "=", "==", "\xff\xfe", strings.Repeat("9", 40), "-", "NaN", "1e999", "true\n"}))
			hostile = true
		default:
			env = append(env, name+"="+c15Value(r, op))
		}
	}
	// properties file
	if r.Intn(2) == 0 {
		var b strings.Builder
		for n := r.Intn(6); n > 0; n-- {
			op := o()
			switch r.Intn(8) {
			case 0:
				b.WriteString(op.Name + "\n")
			case 1:
				b.WriteString(op.Name + " = " + choose(r, []string{"\\", "\\u00", "\\uZZZZ", "${undefined}", "${" + op.Name + "}", "a\\\nb", "\x00"}) + "\n")
				hostile = true
			case 2:
				junk := make([]byte, r.Intn(30))
				r.Read(junk)
				b.Write(junk)
				b.WriteString("\n")
				hostile = true
			case 3:
				b.WriteString("# comment\n! other comment\n\n")
			default:
				b.WriteString(op.Name + choose(r, []string{" = ", "=", ":", " "}) + c15PropEscape(c15Value(r, op)) + "\n")
			}
		}
		props = b.String()
	}
	// arguments: only forms that cannot trigger the flag package's own exit are mixed with hostile ones sparingly
	for n := r.Intn(4); n > 0; n-- {
		op := o()
		switch r.Intn(12) {
		case 0:
			args = append(args, choose(r, []string{"-cfg", "--cfg=", "-cfg=''", "-cfg=\"\"", "-test.v", "-v", "--version", "-", "--", "-=x", "x", "-nosuch=1", "-h"}))
			hostile = true
		case 1:
			args = append(args, "-"+op.Name+"="+choose(r, []string{"", "\xff", strings.Repeat("x", 5000), "NaN", "-1", "99999999999999999999", "a=b=c", ";", ",", ";;,,==", "=;", "cs=", ";cs=nosuch", ":0;proto=", ":0;rt=x"}))
			hostile = true
		default:
			args = append(args, "-"+op.Name+"="+c15Value(r, op))
		}
	}
	if r.Intn(3) == 0 {
		op := c15Opt{Name: "glob.cache.size", Type: "int"}
		args = append(args, "-"+op.Name+"="+choose(r, []string{"0", "-1", "-100", "1", "5"}))
		hostile = true
	}
	return
}

// c15Diff returns the part of a around the first byte where it differs from b.
func c15Diff(a, b []byte) string {
	i := 0
	for i < len(a) && i < len(b) && a[i] == b[i] {
		i++
	}
	lo := i - 80
	if lo < 0 {
		lo = 0
	}
	hi := i + 200
	if hi > len(a) {
		hi = len(a)
	}
	return string(a[lo:hi])
}
