package main

import (
	"bufio"
	"crypto/tls"
	"fmt"
	"io"
	"net"
	"net/http"
	"os"
	"path/filepath"
	"strings"
	"sync/atomic"
	"time"

	"verif/harness/internal/fabioproc"
)

func init() { register("c04-wire", "C04", c04Wire) }

// c04Wire: the traffic split as the upstreams see it, through every kind of listener that picks a target per
// connection or per request: tcp, tcp+sni, https+tcp+sni (tcp route and https fall-through) and http. Each group
// of upstreams answers with its own id; one connection per request, sequentially, on a table that does not change
// meanwhile: every upstream must receive its weight's share of the requests of whole round-robin cycles.
func c04Wire(c *ctx) {
	c.R.Rule = "[c04-wire] the real binary (-proxy.strategy rr) with tcp, tcp+sni, https+tcp+sni and http listeners; route groups of 2 and 3 equal targets and of fixed weights 0.25/0.75 and 0.5/0.3/0.2; every upstream identifies itself; one connection per request, sequentially, whole multiples of the ring cycle on a stable table; each upstream must have received its share (+-2 for the cursor position at the start), none with a positive weight may be starved. evaluations = requests; non-trivial = request to a group with >=2 targets through a tcp-family listener or the https fall-through; distinct by (listener, group, request index)"
	// identifying upstreams: raw TCP ones answer "U<k>\n" and close, HTTP ones answer with header X-Up: <k>
	var hits [64]atomic.Int64
	newRaw := func(k int) string {
		ln, err := net.Listen("tcp", "127.0.0.1:0")
		if err != nil {
			panic(err)
		}
		go func() {
			for {
				cn, err := ln.Accept()
				if err != nil {
					return
				}
				go func() {
					defer cn.Close()
					cn.SetDeadline(time.Now().Add(10 * time.Second))
					// the client's first bytes (a ClientHello on SNI listeners, "hi\n" otherwise) mark a real connection
					b := make([]byte, 1)
					if _, err := io.ReadFull(cn, b); err != nil {
						return
					}
					hits[k].Add(1)
					fmt.Fprintf(cn, "U%d\n", k)
				}()
			}
		}()
		return ln.Addr().String()
	}
	newHTTP := func(k int) string {
		ln, err := net.Listen("tcp", "127.0.0.1:0")
		if err != nil {
			panic(err)
		}
		go http.Serve(ln, http.HandlerFunc(func(w http.ResponseWriter, r *http.Request) {
			hits[k].Add(1)
			w.Header().Set("X-Up", fmt.Sprint(k))
			w.Write([]byte("ok"))
		}))
		return ln.Addr().String()
	}
	certDir := filepath.Join(c.Dir, "c04cert")
	os.MkdirAll(certDir, 0o755)
	crt := c11Make("l-cert.pem", "mixweb.test", "mixweb.test", "mixweb3.test")
	os.WriteFile(filepath.Join(certDir, "l-cert.pem"), crt.CertPEM, 0o644)
	os.WriteFile(filepath.Join(certDir, "l-key.pem"), crt.KeyPEM, 0o600)
	tcpA, tcpB := fmt.Sprintf("127.0.0.1:%d", freePort()), fmt.Sprintf("127.0.0.1:%d", freePort())
	sniA, mixA, httpA := fmt.Sprintf("127.0.0.1:%d", freePort()), fmt.Sprintf("127.0.0.1:%d", freePort()), fmt.Sprintf("127.0.0.1:%d", freePort())
	rg, err := newRig(c, "split", []string{"-proxy.addr", fmt.Sprintf("%s;proto=tcp,%s;proto=tcp,%s;proto=tcp+sni,%s;proto=https+tcp+sni;cs=cs1,%s", tcpA, tcpB, sniA, mixA, httpA),
		"-proxy.cs", "cs=cs1;type=path;cert=" + certDir, "-proxy.strategy", "rr", "-log.level", "WARN"})
	if err != nil {
		c.R.Inconcl("cannot start fabio: %v", err)
		return
	}
	defer rg.close()
	type group struct {
		name     string
		listener string // tcp | sni | mix-tcp | mix-https | http
		addr     string
		host     string
		weights  []float64 // 0 = dynamic
		ups      []int
		cycle    int // ring length of one cycle as far as the requests sent are concerned
	}
	next := 0
	var lines []string
	mk := func(name, listener, addr, host string, weights []float64, cycle int) *group {
		g := &group{name: name, listener: listener, addr: addr, host: host, weights: weights, cycle: cycle}
		for _, w := range weights {
			k := next
			next++
			g.ups = append(g.ups, k)
			var src, dst, opts string
			switch listener {
			case "tcp":
				_, port, _ := net.SplitHostPort(addr)
				src, dst, opts = ":"+port, "tcp://"+newRaw(k), "proto=tcp"
			case "sni", "mix-tcp":
				src, dst, opts = host+"/", "tcp://"+newRaw(k), "proto=tcp"
			default:
				src, dst = host+"/", "http://"+newHTTP(k)+"/"
			}
			l := fmt.Sprintf("route add %s %s %s", name, src, dst)
			if w > 0 {
				l += fmt.Sprintf(" weight %g", w)
			}
			if opts != "" {
				l += fmt.Sprintf(" opts %q", opts)
			}
			lines = append(lines, l)
		}
		return g
	}
	groups := []*group{
		mk("t2", "tcp", tcpA, "", []float64{0, 0}, 2),
		mk("tw", "tcp", tcpB, "", []float64{0.25, 0.75}, 4),
		mk("s3", "sni", sniA, "sni3.test", []float64{0, 0, 0}, 3),
		mk("s2", "sni", sniA, "sni2.test", []float64{0, 0}, 2),
		mk("sw", "sni", sniA, "sniw.test", []float64{0.5, 0.3, 0.2}, 10),
		mk("m2", "mix-tcp", mixA, "mixtcp.test", []float64{0, 0}, 2),
		mk("m3", "mix-tcp", mixA, "mixtcp3.test", []float64{0, 0, 0}, 3),
		mk("w2", "mix-https", mixA, "mixweb.test", []float64{0, 0}, 2),
		mk("w3", "mix-https", mixA, "mixweb3.test", []float64{0, 0, 0}, 3),
		mk("h2", "http", httpA, "plain2.test", []float64{0, 0}, 2),
		mk("hw", "http", httpA, "plainw.test", []float64{0.25, 0.75}, 4),
	}
	rg.setManual(strings.Join(lines, "\n"))
	if err := rg.barrier(); err != nil {
		c.R.Inconcl("barrier: %v", err)
		return
	}
	for _, a := range []string{tcpA, tcpB, sniA, mixA, httpA} {
		if !fabioproc.WaitListening(a, 20*time.Second) {
			c.R.Inconcl("listener %s did not come up", a)
			return
		}
	}
	if err := waitTLSServing("warmup.invalid", mixA); err != nil { // not a tcp route's name: the https side answers
		c.R.Inconcl("%v", err)
		return
	}
	time.Sleep(300 * time.Millisecond)
	// one request on its own connection; returns the id of the upstream that answered
	one := func(g *group) (int, error) {
		switch g.listener {
		case "tcp", "sni", "mix-tcp":
			cn, err := net.DialTimeout("tcp", g.addr, 5*time.Second)
			if err != nil {
				return -1, err
			}
			defer cn.Close()
			cn.SetDeadline(time.Now().Add(10 * time.Second))
			if g.listener == "tcp" {
				cn.Write([]byte("hi\n"))
			} else {
				cn.Write(c09Hello(g.host))
			}
			line, err := bufio.NewReader(cn).ReadString('\n')
			if err != nil {
				return -1, fmt.Errorf("reading the upstream's id: %v", err)
			}
			var k int
			if _, err := fmt.Sscanf(line, "U%d", &k); err != nil {
				return -1, fmt.Errorf("unexpected answer %q", line)
			}
			return k, nil
		default:
			tr := &http.Transport{DisableKeepAlives: true, TLSClientConfig: &tls.Config{InsecureSkipVerify: true, ServerName: g.host}}
			defer tr.CloseIdleConnections()
			scheme := "http"
			if g.listener == "mix-https" {
				scheme = "https"
			}
			req, _ := http.NewRequest("GET", scheme+"://"+g.addr+"/", nil)
			req.Host = g.host
			resp, err := (&http.Client{Transport: tr, Timeout: 10 * time.Second}).Do(req)
			if err != nil {
				return -1, err
			}
			defer resp.Body.Close()
			io.Copy(io.Discard, resp.Body)
			var k int
			if _, err := fmt.Sscanf(resp.Header.Get("X-Up"), "%d", &k); err != nil || resp.StatusCode != 200 {
				return -1, fmt.Errorf("status %d, X-Up %q", resp.StatusCode, resp.Header.Get("X-Up"))
			}
			return k, nil
		}
	}
	cycles := c.scale(c.pick(12, 120))
	for _, g := range groups {
		n := cycles * g.cycle
		got := map[int]int{}
		for i := 0; i < n; i++ {
			k, err := one(g)
			c.R.Eval(1)
			if g.listener != "http" {
				c.R.Nontrivial(fmt.Sprintf("%s|%d", g.name, i))
			}
			if err != nil {
				c.R.Violate("c04w:request-failed:"+g.listener, fmt.Sprintf("group %s (%s listener, host %q), request %d: %v", g.name, g.listener, g.host, i, err), nil)
				return
			}
			got[k]++
		}
		// effective weights: fixed as given, the rest shared equally
		sum, dyn := 0.0, 0
		for _, w := range g.weights {
			sum += w
			if w == 0 {
				dyn++
			}
		}
		var report []string
		bad := ""
		for j, k := range g.ups {
			w := g.weights[j]
			if w == 0 {
				w = (1 - sum) / float64(dyn)
			}
			want := w * float64(n)
			report = append(report, fmt.Sprintf("upstream %d (weight %.4g): %d of %d, share %.1f", j, w, got[k], n, want))
			if d := float64(got[k]) - want; d > 2.01 || d < -2.01 {
				bad = "share"
			}
			if got[k] == 0 {
				bad = "starved"
			}
			delete(got, k)
		}
		if len(got) > 0 {
			bad = "foreign-upstream"
		}
		in := map[string]any{"group": g.name, "listener": g.listener, "weights": g.weights, "requests": n}
		if bad != "" {
			c.R.Violate("c04w:"+bad+":"+g.listener, fmt.Sprintf("%s listener, route group %s (host %q), %d sequential requests on a stable table, one connection each: %s; foreign answers: %v", g.listener, g.name, g.host, n, strings.Join(report, "; "), got), in)
			continue
		}
		if c.R.WantSample() {
			c.R.Sample(map[string]any{"listener": g.listener, "group": g.name, "requests": n, "received": report})
		}
	}
}
