package main

import (
	"bytes"
	stdgzip "compress/gzip"
	"crypto/sha256"
	"fmt"
	"io"
	"math/rand"
	"net"
	"net/http"
	"regexp"
	"strconv"
	"strings"
	"sync"
	"sync/atomic"
	"time"

	fgzip "github.com/fabiolb/fabio/proxy/gzip"
)

func init() { register("c17-gzip", "C17", c17Gzip) }

type c17Case struct {
	ID          int
	Status      int
	ExplicitWH  bool
	ContentType string // "" = not set by the handler
	PreEncoding string // Content-Encoding set by the inner handler
	SetLength   bool   // inner handler sets Content-Length
	Chunks      []int  // sizes of the writes
	BodySeed    int64
	Compress    bool // compressible content
	AcceptEnc   string
	Accept      string
	Method      string
	ExtraHdr    string
	Early       int  // 0 none; 1: 103 Early Hints before the handler sets its headers; 2: after
	HeadSilent  bool // the handler writes no body for a HEAD request (what a reverse proxy does)
}

func (cs *c17Case) body() []byte {
	n := 0
	for _, c := range cs.Chunks {
		n += c
	}
	b := make([]byte, n)
	r := rand.New(rand.NewSource(cs.BodySeed))
	if cs.Compress {
		words := []string{"lorem ", "ipsum ", "dolor ", "sit ", "amet ", "<p>", "</p>\n", "{\"k\":", "12345", "},"}
		i := 0
		for i < n {
			w := words[r.Intn(len(words))]
			i += copy(b[i:], w)
		}
	} else {
		r.Read(b)
	}
	return b
}

var c17Types = []string{"text/html", "text/plain; charset=utf-8", "application/json", "application/javascript", "image/png", "application/octet-stream", "text/event-stream", "", "TEXT/HTML", "application/xml"}

func genC17(r *rand.Rand, id int) *c17Case {
	cs := &c17Case{ID: id, BodySeed: r.Int63(), Compress: r.Intn(3) > 0}
	cs.Status = choose(r, []int{200, 200, 200, 201, 206, 404, 500, 204, 304, 403})
	cs.ExplicitWH = r.Intn(2) == 0 || cs.Status != 200
	cs.ContentType = choose(r, c17Types)
	if r.Intn(6) == 0 {
		cs.PreEncoding = choose(r, []string{"gzip", "br", "identity", "deflate", "|br", "|gzip"}) // "|x": an empty Content-Encoding line followed by one naming x
	}
	nchunks := 1 + r.Intn(4)
	if r.Intn(10) == 0 {
		nchunks = 10 + r.Intn(40)
	}
	for i := 0; i < nchunks; i++ {
		var sz int
		switch r.Intn(10) {
		case 0:
			sz = 0
		case 1:
			sz = 1
		case 2:
			sz = 32*1024 + r.Intn(3) - 1
		case 3:
			sz = r.Intn(300000)
		default:
			sz = r.Intn(3000)
		}
		cs.Chunks = append(cs.Chunks, sz)
	}
	if r.Intn(40) == 0 {
		cs.Chunks = append(cs.Chunks, 1<<20+r.Intn(3<<20))
	}
	if r.Intn(15) == 0 {
		cs.Chunks = nil // no body at all
	}
	if cs.Status == 204 || cs.Status == 304 {
		cs.Chunks = nil
	}
	cs.SetLength = r.Intn(3) == 0
	cs.AcceptEnc = choose(r, []string{"", "gzip", "gzip", "gzip, deflate", "gzip, deflate, br", "br", "deflate", "identity", "GZIP", "deflate, gzip",
		"gzip;q=0", "identity, gzip;q=0", "gzip; q=0.0, identity;q=1", "gzip;q=0.5, br;q=1", "deflate, gzip ; q=0"})
	cs.Accept = choose(r, []string{"", "*/*", "text/html", "text/event-stream", "application/json, text/event-stream"})
	cs.Method = choose(r, []string{"GET", "GET", "GET", "POST", "HEAD"})
	cs.HeadSilent = r.Intn(3) > 0
	if r.Intn(3) == 0 {
		cs.ExtraHdr = fmt.Sprintf("v%d", r.Intn(1000))
	}
	if r.Intn(8) == 0 {
		cs.Early = 1 + r.Intn(2) // an informational response first; the final status is written explicitly
		cs.ExplicitWH = true
	}
	return cs
}

type c17Resp struct {
	Status  int
	Hdr     http.Header
	Body    []byte
	CLen    int64
	TE      []string
	ReadErr string
}

func c17Gzip(c *ctx) {
	n := c.scale(c.pick(5000, 100000))
	c.R.Rule = "generated inner handlers (status, explicit/implicit WriteHeader, content type matching/not matching/absent, pre-set Content-Encoding and Content-Length, body 0B-4MiB compressible or random, written in 1-50 chunks) x request Accept-Encoding/Accept/method, served by two real net/http servers on loopback: wrapped by NewGzipHandler and unwrapped (reference); 64 concurrent clients with transparent decompression disabled, next to 4 clients that reset their connection in the middle of a 2-4 MiB compressed response (the wrapper's write fails). gzip-labelled => allowed to compress and gunzips to the reference body; otherwise identical to the reference. non-trivial = response the wrapper compressed, or one it had to leave alone although the client accepts gzip; distinct by case"
	re := regexp.MustCompile(`^(text/.*|application/(javascript|json|xml))(;.*)?$`)
	var cases sync.Map
	inner := http.HandlerFunc(func(w http.ResponseWriter, r *http.Request) {
		id, _ := strconv.Atoi(r.URL.Query().Get("id"))
		v, ok := cases.Load(id)
		if !ok {
			w.WriteHeader(599)
			return
		}
		cs := v.(*c17Case)
		body := cs.body()
		if cs.Early == 1 {
			w.Header().Set("Link", "</style.css>; rel=preload")
			w.WriteHeader(http.StatusEarlyHints)
		}
		if cs.ContentType != "" {
			w.Header().Set("Content-Type", cs.ContentType)
		}
		if strings.HasPrefix(cs.PreEncoding, "|") {
			w.Header()["Content-Encoding"] = []string{"", cs.PreEncoding[1:]}
		} else if cs.PreEncoding != "" {
			w.Header().Set("Content-Encoding", cs.PreEncoding)
		}
		if cs.SetLength && cs.Status != 204 && cs.Status != 304 {
			w.Header().Set("Content-Length", strconv.Itoa(len(body)))
		}
		if cs.ExtraHdr != "" {
			w.Header().Set("X-Inner", cs.ExtraHdr)
			w.Header().Add("X-Multi", "a")
			w.Header().Add("X-Multi", cs.ExtraHdr)
		}
		if cs.Early == 2 {
			w.WriteHeader(http.StatusEarlyHints)
		}
		if cs.ExplicitWH {
			w.WriteHeader(cs.Status)
		}
		if r.Method == "HEAD" && cs.HeadSilent {
			if !cs.ExplicitWH {
				w.WriteHeader(cs.Status)
			}
			return
		}
		off := 0
		for _, sz := range cs.Chunks {
			w.Write(body[off : off+sz])
			off += sz
		}
	})
	serve := func(h http.Handler) (string, func()) {
		ln, err := net.Listen("tcp", "127.0.0.1:0")
		if err != nil {
			panic(err)
		}
		srv := &http.Server{Handler: h}
		go srv.Serve(ln)
		return "http://" + ln.Addr().String(), func() { srv.Close() }
	}
	wrappedURL, stop1 := serve(fgzip.NewGzipHandler(inner, re))
	refURL, stop2 := serve(inner)
	defer stop1()
	defer stop2()
	tr := &http.Transport{DisableCompression: true, MaxIdleConnsPerHost: 128, MaxConnsPerHost: 0}
	client := &http.Client{Transport: tr, Timeout: 60 * time.Second}
	fetch := func(base string, cs *c17Case) (*c17Resp, error) {
		req, _ := http.NewRequest(cs.Method, fmt.Sprintf("%s/?id=%d", base, cs.ID), nil)
		if cs.AcceptEnc != "" {
			req.Header.Set("Accept-Encoding", cs.AcceptEnc)
		}
		if cs.Accept != "" {
			req.Header.Set("Accept", cs.Accept)
		}
		resp, err := client.Do(req)
		if err != nil {
			return nil, err
		}
		defer resp.Body.Close()
		b, rerr := io.ReadAll(resp.Body)
		out := &c17Resp{Status: resp.StatusCode, Hdr: resp.Header, Body: b, CLen: resp.ContentLength, TE: resp.TransferEncoding}
		if rerr != nil {
			out.ReadErr = rerr.Error()
		}
		return out, nil
	}
	var compressed, plain atomic.Int64
	var idc atomic.Int64
	var wg sync.WaitGroup
	const G = 64
	// clients that go away in the middle of a large compressed response (the server's write fails) while the others
	// keep comparing: a failed response must not disturb any other
	stopAbort := make(chan struct{})
	var awg sync.WaitGroup
	var aborted atomic.Int64
	for a := 0; a < 4; a++ {
		awg.Add(1)
		go func(a int) {
			defer awg.Done()
			r := c.rng(int64(3900 + a))
			addr := strings.TrimPrefix(wrappedURL, "http://")
			for {
				select {
				case <-stopAbort:
					return
				default:
				}
				cs := &c17Case{ID: int(idc.Add(1)), Status: 200, ExplicitWH: r.Intn(2) == 0, ContentType: "text/plain", BodySeed: r.Int63(), Compress: false, AcceptEnc: "gzip", Method: "GET"}
				for k := 0; k < 16; k++ {
					cs.Chunks = append(cs.Chunks, 128*1024+r.Intn(128*1024))
				}
				cases.Store(cs.ID, cs)
				conn, err := net.DialTimeout("tcp", addr, 5*time.Second)
				if err == nil {
					fmt.Fprintf(conn, "GET /?id=%d HTTP/1.1\r\nHost: x\r\nAccept-Encoding: gzip\r\n\r\n", cs.ID)
					conn.SetReadDeadline(time.Now().Add(5 * time.Second))
					io.ReadFull(conn, make([]byte, 2048+r.Intn(60000)))
					if tc, ok := conn.(*net.TCPConn); ok {
						tc.SetLinger(0) // reset: the server's next write fails
					}
					conn.Close()
					aborted.Add(1)
				}
				time.Sleep(time.Duration(20+r.Intn(60)) * time.Millisecond) // let the handler run into the error
				cases.Delete(cs.ID)
			}
		}(a)
	}
	for g := 0; g < G; g++ {
		wg.Add(1)
		go func(g int) {
			defer wg.Done()
			r := c.rng(int64(3000 + g))
			for i := g; i < n; i += G {
				cs := genC17(r, int(idc.Add(1)))
				cases.Store(cs.ID, cs)
				c.R.Eval(1)
				w, err1 := fetch(wrappedURL, cs)
				ref, err2 := fetch(refURL, cs)
				var twin *c17Resp // HEAD: what a GET for the same resource delivers through the wrapper
				if cs.Method == "HEAD" {
					g := *cs
					g.Method = "GET"
					twin, _ = fetch(wrappedURL, &g)
				}
				cases.Delete(cs.ID)
				in := map[string]any{"Case": cs}
				if err2 != nil {
					c.R.Count("reference_request_errors", 1)
					continue
				}
				if err1 != nil {
					c.R.Violate("c17:request-failed", fmt.Sprintf("request through the wrapper failed (%v) while the unwrapped handler answered %d", err1, ref.Status), in)
					continue
				}
				if w.Status != ref.Status {
					c.R.Violate("c17:status-changed", fmt.Sprintf("status %d, inner handler produced %d", w.Status, ref.Status), in)
					continue
				}
				bodiless := cs.Method == "HEAD" || ref.Status == 204 || ref.Status == 304
				labelled := w.Hdr.Get("Content-Encoding") == "gzip" && strings.Join(ref.Hdr.Values("Content-Encoding"), "") == ""
				acceptsGzip := c17AcceptsGzip(cs.AcceptEnc)
				if labelled {
					compressed.Add(1)
					c.R.Nontrivial(fmt.Sprintf("%+v", *cs))
					ct := cs.ContentType
					if ct == "" {
						ct = w.Hdr.Get("Content-Type") // no type from the handler: the sniffed one decides
					}
					if !acceptsGzip {
						c.R.Violate("c17:compressed-for-client-without-gzip", fmt.Sprintf("Accept-Encoding %q but the response is gzip encoded", cs.AcceptEnc), in)
						continue
					}
					if strings.Contains(cs.Accept, "text/event-stream") {
						c.R.Violate("c17:compressed-event-stream", "client asked for text/event-stream but the response is gzip encoded", in)
						continue
					}
					if !re.MatchString(ct) {
						c.R.Violate("c17:compressed-nonmatching-type", fmt.Sprintf("content type %q does not match the configured expression but the response is gzip encoded", ct), in)
						continue
					}
					if ref.Status == 204 || ref.Status == 304 {
						// a status without a body: nothing was compressed, the label (and a removed Content-Length) is a change
						c.R.Violate("c17:bodiless-status-labelled-gzip", fmt.Sprintf("upstream status %d has no body; the response is labelled Content-Encoding: gzip although its (empty) body is no gzip stream", ref.Status), in)
						continue
					}
					if bodiless {
						// HEAD: no body to compare; a Content-Length, if announced, is the one of the GET response
						if twin != nil && twin.ReadErr == "" && w.CLen >= 0 && (twin.CLen >= 0 && twin.CLen != w.CLen || twin.CLen < 0 && int64(len(twin.Body)) != w.CLen) {
							c.R.Violate("c17:head-invented-content-length", fmt.Sprintf("HEAD response labelled gzip announces Content-Length %d; the GET for the same resource delivers %d bytes (its Content-Length: %d), the upstream's HEAD response says %d", w.CLen, len(twin.Body), twin.CLen, ref.CLen), in)
						}
						c.R.Count("head_responses_labelled_gzip", 1)
						continue
					}
					if w.ReadErr != "" {
						c.R.Violate("c17:stale-content-length", fmt.Sprintf("reading the compressed body failed: %s (Content-Length %d, %d bytes read)", w.ReadErr, w.CLen, len(w.Body)), in)
						continue
					}
					if w.CLen >= 0 && w.CLen != int64(len(w.Body)) {
						c.R.Violate("c17:stale-content-length", fmt.Sprintf("Content-Length %d but %d bytes on the wire", w.CLen, len(w.Body)), in)
						continue
					}
					zr, err := stdgzip.NewReader(bytes.NewReader(w.Body))
					var plainBody []byte
					if err == nil {
						plainBody, err = io.ReadAll(zr)
					}
					if err != nil {
						c.R.Violate("c17:not-gunzippable", fmt.Sprintf("gzip-labelled body (%d bytes) does not decompress: %v", len(w.Body), err), in)
						continue
					}
					if !bytes.Equal(plainBody, ref.Body) {
						c.R.Violate("c17:content-changed", fmt.Sprintf("decompressed body has %d bytes (sha %x), inner handler wrote %d bytes (sha %x)", len(plainBody), sha256.Sum256(plainBody), len(ref.Body), sha256.Sum256(ref.Body)), in)
						continue
					}
					if w.Hdr.Get("X-Inner") != ref.Hdr.Get("X-Inner") || strings.Join(w.Hdr.Values("X-Multi"), "|") != strings.Join(ref.Hdr.Values("X-Multi"), "|") || (cs.ContentType != "" && w.Hdr.Get("Content-Type") != ref.Hdr.Get("Content-Type")) {
						c.R.Violate("c17:headers-changed", "handler headers differ on a compressed response", in)
					}
					if c.R.WantSample() {
						c.R.Sample(map[string]any{"status": w.Status, "content_type": ct, "accept_encoding": cs.AcceptEnc, "chunks": len(cs.Chunks), "plain_bytes": len(ref.Body), "wire_bytes": len(w.Body)})
					}
					continue
				}
				plain.Add(1)
				if acceptsGzip {
					c.R.Nontrivial(fmt.Sprintf("%+v", *cs))
				}
				// not compressed: byte for byte the reference
				if w.ReadErr != ref.ReadErr || !bytes.Equal(w.Body, ref.Body) {
					c.R.Violate("c17:passthrough-body-differs", fmt.Sprintf("uncompressed response body differs: %d bytes (err %q) vs %d bytes (err %q)", len(w.Body), w.ReadErr, len(ref.Body), ref.ReadErr), in)
					continue
				}
				for _, h := range []string{"Content-Type", "Content-Encoding", "Content-Length", "X-Inner"} {
					if h == "Content-Type" && cs.ContentType == "" {
						continue // the handler set no type: which sniffed type is reported is not demanded
					}
					if strings.Join(w.Hdr.Values(h), "|") != strings.Join(ref.Hdr.Values(h), "|") {
						c.R.Violate("c17:passthrough-header-differs:"+h, fmt.Sprintf("header %s is %q, inner handler's response has %q", h, w.Hdr.Get(h), ref.Hdr.Get(h)), in)
					}
				}
				if strings.Join(w.Hdr.Values("X-Multi"), "|") != strings.Join(ref.Hdr.Values("X-Multi"), "|") || w.CLen != ref.CLen || strings.Join(w.TE, ",") != strings.Join(ref.TE, ",") {
					c.R.Violate("c17:passthrough-framing-differs", fmt.Sprintf("framing differs: length %d/%d transfer-encoding %v/%v", w.CLen, ref.CLen, w.TE, ref.TE), in)
				}
			}
		}(g)
	}
	wg.Wait()
	close(stopAbort)
	awg.Wait()
	c17Stream(c, re)
	c.R.SetCounter("responses_aborted_by_client", aborted.Load())
	c.R.SetCounter("compressed_responses", compressed.Load())
	c.R.SetCounter("uncompressed_responses", plain.Load())
	if compressed.Load() < 100 || plain.Load() < 100 {
		c.R.Inconcl("too few responses observed: %d compressed, %d uncompressed", compressed.Load(), plain.Load())
	}
}

// c17AcceptsGzip: the client lists the gzip coding (any letter case) with a weight other than zero (RFC 9110 12.5.3).
func c17AcceptsGzip(ae string) bool {
	for _, el := range strings.Split(ae, ",") {
		coding, params, _ := strings.Cut(el, ";")
		if !strings.EqualFold(strings.TrimSpace(coding), "gzip") {
			continue
		}
		for _, p := range strings.Split(params, ";") {
			k, v, _ := strings.Cut(p, "=")
			if strings.EqualFold(strings.TrimSpace(k), "q") {
				if q, err := strconv.ParseFloat(strings.TrimSpace(v), 64); err != nil || q <= 0 {
					return false
				}
			}
		}
		return true
	}
	return false
}

// c17Stream: a response that is written in two parts with a flush in between (what the reverse proxy does for streamed
// upstream responses and with a flush interval). The handler sends the second part only after the client has confirmed
// the first: the first part must reach the client while the response is still open, compressed or not.
func c17Stream(c *ctx, re *regexp.Regexp) {
	type sess struct {
		ctype string
		acked chan struct{}
		late  atomic.Bool
	}
	var sessions sync.Map
	part1, part2 := bytes.Repeat([]byte("first part of the stream. "), 40), bytes.Repeat([]byte("second part. "), 40)
	inner := http.HandlerFunc(func(w http.ResponseWriter, r *http.Request) {
		v, ok := sessions.Load(r.URL.Query().Get("id"))
		if !ok {
			w.WriteHeader(599)
			return
		}
		ss := v.(*sess)
		w.Header().Set("Content-Type", ss.ctype)
		w.Write(part1)
		http.NewResponseController(w).Flush() // like httputil.ReverseProxy: an unsupported flush is silently lost
		select {
		case <-ss.acked:
		case <-time.After(3 * time.Second):
			ss.late.Store(true)
		}
		w.Write(part2)
	})
	ln, err := net.Listen("tcp", "127.0.0.1:0")
	if err != nil {
		c.R.Inconcl("listen: %v", err)
		return
	}
	srv := &http.Server{Handler: fgzip.NewGzipHandler(inner, re)}
	go srv.Serve(ln)
	defer srv.Close()
	client := &http.Client{Transport: &http.Transport{DisableCompression: true}, Timeout: 20 * time.Second}
	n := c.pick(12, 60)
	for i := 0; i < n; i++ {
		ss := &sess{ctype: []string{"text/plain", "image/png", "application/json"}[i%3], acked: make(chan struct{})}
		ae := []string{"gzip", "gzip, br", ""}[(i/3)%3]
		id := fmt.Sprintf("s%d", i)
		sessions.Store(id, ss)
		req, _ := http.NewRequest("GET", "http://"+ln.Addr().String()+"/?id="+id, nil)
		if ae != "" {
			req.Header.Set("Accept-Encoding", ae)
		}
		c.R.Eval(1)
		resp, err := client.Do(req)
		desc := fmt.Sprintf("content type %s, Accept-Encoding %q", ss.ctype, ae)
		if err != nil {
			close(ss.acked)
			c.R.Violate("c17:stream:request-failed", desc+": "+err.Error(), nil)
			continue
		}
		var body io.Reader = resp.Body
		if resp.Header.Get("Content-Encoding") == "gzip" {
			zr, err := stdgzip.NewReader(resp.Body)
			if err != nil {
				close(ss.acked)
				resp.Body.Close()
				c.R.Violate("c17:stream:not-gunzippable", desc+": "+err.Error(), nil)
				continue
			}
			body = zr
			c.R.Nontrivial("stream|" + desc)
		}
		got := make([]byte, len(part1))
		_, rerr := io.ReadFull(body, got)
		close(ss.acked) // the first part is here (or will never be): the handler may go on
		rest, _ := io.ReadAll(body)
		resp.Body.Close()
		switch {
		case rerr != nil || !bytes.Equal(got, part1) || !bytes.Equal(rest, part2):
			c.R.Violate("c17:stream:content-changed", fmt.Sprintf("%s: the two parts did not arrive as written (%v)", desc, rerr), nil)
		case ss.late.Load():
			c.R.Violate("c17:stream:flushed-part-withheld", fmt.Sprintf("%s: the handler wrote %d bytes and flushed; 3s later the client still had not received them (they arrived only with the rest of the response)", desc, len(part1)), map[string]any{"content_type": ss.ctype, "accept_encoding": ae})
		}
		sessions.Delete(id)
	}
	c.R.Count("streamed_responses", int64(n))
}
