package main

import (
	"crypto/tls"
	"fmt"
	"math/rand"
	"net"
	"net/http"
	"net/url"
	"strings"

	"github.com/fabiolb/fabio/config"
	"github.com/fabiolb/fabio/proxy"
)

func init() { register("c08-headers", "C08", c08Headers) }

type c08Case struct {
	Remote   string // peer ip
	Port     string
	TLS      bool
	Host     string
	Upgrade  string
	Headers  [][2]string
	ClientIP string
	TLSHdr   string
	TLSVal   string
	LocalIP  string
	Strip    string
}

func genC08(r *rand.Rand) *c08Case {
	cs := &c08Case{Remote: choose(r, []string{"1.2.3.4", "10.0.0.1", "::1", "2001:db8::7", "fe80::1%eth0", "127.0.0.1"}), Port: "4321", TLS: r.Intn(3) == 0}
	cs.Host = choose(r, []string{"a.test", "a.test:8080", "A.Test", "[::1]", "[::1]:8443", "[2001:db8::1]:80", "a.test:", ""})
	cs.Upgrade = choose(r, []string{"", "", "", "websocket", "Websocket", "WEBSOCKET", "h2c"})
	cs.ClientIP = choose(r, []string{"", "X-Client-Ip", "x-custom", "X-CLIENT-ADDR"})
	cs.TLSHdr = choose(r, []string{"", "X-Tls", "X-SSL", "x-forwarded-ssl"})
	cs.TLSVal = choose(r, []string{"on", "1", "true"})
	cs.LocalIP = choose(r, []string{"", "9.9.9.9"})
	cs.Strip = choose(r, []string{"", "/s"})
	names := []string{"X-Forwarded-For", "x-forwarded-for", "X-Forwarded-Proto", "X-Forwarded-Port", "X-Forwarded-Host", "Forwarded", "X-Real-Ip", "x-real-ip", "X-Client-Ip", "x-custom", "X-Client-Addr", "X-Tls", "X-SSL", "x-ssl", "X-Forwarded-Ssl", "X-App", "X-Forwarded-Prefix"}
	for n := r.Intn(5); n > 0; n-- {
		nm := choose(r, names)
		var v string
		switch strings.ToLower(nm) {
		case "x-forwarded-for":
			v = choose(r, []string{"6.6.6.6", "6.6.6.6, 7.7.7.7"})
		case "x-forwarded-proto":
			v = choose(r, []string{"http", "https"})
		case "x-forwarded-port":
			v = "8443"
		case "x-forwarded-host":
			v = "evil.example"
		case "forwarded":
			v = choose(r, []string{"for=6.6.6.6; proto=https", "for=6.6.6.6", "for=6.6.6.6; proto=", "for=a;proto=https, for=b", "for=a; proto=\"https\"", "for=a; httpproto=http/1.1", "for=a;PROTO=https"})
		default:
			v = choose(r, []string{"6.6.6.6", "on", "x"})
		}
		cs.Headers = append(cs.Headers, [2]string{nm, v})
	}
	return cs
}

func c08Headers(c *ctx) {
	n := c.scale(c.pick(600000, 20000000))
	c.R.Rule = "addHeaders (via the verif-tagged export) on generated requests: peers incl. IPv6 and zone-scoped, Host with/without port, IPv6-literal hosts, Upgrade tokens in any case, header configurations with canonical and non-canonical names, forged/repeated/odd-cased copies of every managed header; same oracle as the wire part for the client-IP header, X-Real-Ip, the websocket X-Forwarded-For, TLS header, X-Forwarded-Proto/-Host/-Port and Forwarded. non-trivial = request with a forged managed header, TLS, an IPv6 host or an upgrade token; distinct by case"
	parallel(c, n, func(r *rand.Rand, i int) {
		cs := genC08(r)
		c.R.Eval(1)
		req := &http.Request{Method: "GET", Host: cs.Host, URL: &url.URL{Path: "/x"}, Header: http.Header{}, Proto: "HTTP/1.1", RemoteAddr: net.JoinHostPort(cs.Remote, cs.Port)}
		if cs.TLS {
			req.TLS = &tls.ConnectionState{Version: tls.VersionTLS13, CipherSuite: tls.TLS_AES_128_GCM_SHA256}
		}
		sent := http.Header{}
		for _, h := range cs.Headers {
			req.Header.Add(h[0], h[1]) // canonicalised like the server does
			sent.Add(h[0], h[1])
		}
		if cs.Upgrade != "" {
			req.Header.Set("Upgrade", cs.Upgrade)
		}
		cfg := config.Proxy{ClientIPHeader: cs.ClientIP, TLSHeader: cs.TLSHdr, TLSHeaderValue: cs.TLSVal, LocalIP: cs.LocalIP}
		in := map[string]any{"Case": cs}
		var err error
		if p := safely(func() { err = proxy.VerifAddHeaders(req, cfg, cs.Strip) }); p != "" {
			c.R.Violate("c08v:panic", p, in)
			return
		}
		if err != nil {
			c.R.Violate("c08v:error", err.Error(), in)
			return
		}
		if len(cs.Headers) > 0 || cs.TLS || strings.HasPrefix(cs.Host, "[") || cs.Upgrade != "" {
			c.R.Nontrivial(fmt.Sprintf("%+v", *cs))
		}
		peer := cs.Remote
		h := req.Header
		if cs.ClientIP != "" {
			if g := h.Values(cs.ClientIP); len(g) != 1 || g[0] != peer {
				c.R.Violate("c08v:client-ip-header", fmt.Sprintf("%s is %q, peer %s", cs.ClientIP, g, peer), in)
				return
			}
		}
		if s := sent.Values("X-Real-Ip"); len(s) == 0 {
			if g := h.Values("X-Real-Ip"); len(g) != 1 || g[0] != peer {
				c.R.Violate("c08v:x-real-ip", fmt.Sprintf("X-Real-Ip %q, peer %s", g, peer), in)
				return
			}
		} else if g := h.Get("X-Real-Ip"); g != s[0] {
			c.R.Violate("c08v:x-real-ip-client-value-lost", fmt.Sprintf("X-Real-Ip %q, client sent %q", g, s), in)
			return
		}
		if strings.EqualFold(cs.Upgrade, "websocket") {
			// the reverse proxy does not add X-Forwarded-For on this path: addHeaders must
			var xff []string
			for _, v := range h.Values("X-Forwarded-For") {
				for _, p := range strings.Split(v, ",") {
					xff = append(xff, strings.TrimSpace(p))
				}
			}
			if len(xff) == 0 || xff[len(xff)-1] != peer {
				c.R.Violate("c08v:xff-tail:websocket-upgrade-"+cs.Upgrade, fmt.Sprintf("Upgrade: %s: X-Forwarded-For %q must end with the peer %s", cs.Upgrade, xff, peer), in)
				return
			}
		}
		if cs.TLSHdr != "" {
			g := h.Values(cs.TLSHdr)
			if cs.TLS && (len(g) != 1 || g[0] != cs.TLSVal) {
				c.R.Violate("c08v:tls-header-missing", fmt.Sprintf("%s is %q on a TLS connection", cs.TLSHdr, g), in)
				return
			}
			if !cs.TLS && len(g) != 0 {
				c.R.Violate("c08v:tls-header-on-plain-connection", fmt.Sprintf("%s is %q on a plain connection (client sent %q)", cs.TLSHdr, g, sent.Values(cs.TLSHdr)), in)
				return
			}
		}
		proto := "http"
		if cs.TLS {
			proto = "https"
		}
		if s := sent.Values("X-Forwarded-Proto"); len(s) > 0 {
			if h.Get("X-Forwarded-Proto") != s[0] {
				c.R.Violate("c08v:xfp-client-value-lost", fmt.Sprintf("X-Forwarded-Proto %q, client sent %q", h.Get("X-Forwarded-Proto"), s), in)
				return
			}
		} else if fp := c08ForwardedProto(sent.Values("Forwarded")); true {
			if g := h.Values("X-Forwarded-Proto"); len(g) != 1 || (g[0] != proto && !(fp != "" && strings.EqualFold(g[0], fp))) {
				c.R.Violate("c08v:xfp-wrong", fmt.Sprintf("X-Forwarded-Proto %q on a %s connection (Upgrade %q)", g, proto, cs.Upgrade), in)
				return
			}
		}
		if s := sent.Values("X-Forwarded-Host"); len(s) > 0 {
			if h.Get("X-Forwarded-Host") != s[0] {
				c.R.Violate("c08v:xfh-client-value-lost", "client value of X-Forwarded-Host lost", in)
				return
			}
		} else if cs.Host != "" {
			if g := h.Values("X-Forwarded-Host"); len(g) != 1 || g[0] != cs.Host {
				c.R.Violate("c08v:xfh-wrong", fmt.Sprintf("X-Forwarded-Host %q, client asked for %q", g, cs.Host), in)
				return
			}
		}
		if s := sent.Values("X-Forwarded-Port"); len(s) > 0 {
			if h.Get("X-Forwarded-Port") != s[0] {
				c.R.Violate("c08v:xfport-client-value-lost", "client value of X-Forwarded-Port lost", in)
				return
			}
		} else {
			want := "80"
			if cs.TLS {
				want = "443"
			}
			if _, p, err := net.SplitHostPort(cs.Host); err == nil && p != "" {
				want = p
			}
			if g := h.Values("X-Forwarded-Port"); len(g) != 1 || g[0] != want {
				sig := "c08v:xfport-wrong"
				if strings.HasPrefix(cs.Host, "[") {
					sig += ":ipv6-literal-host"
				}
				c.R.Violate(sig, fmt.Sprintf("X-Forwarded-Port %q for Host %q on a %s connection, want %s", g, cs.Host, proto, want), in)
				return
			}
		}
		fw := h.Values("Forwarded")
		if s := sent.Values("Forwarded"); len(s) > 0 {
			if len(fw) != 1 || !strings.HasPrefix(fw[0], s[0]) {
				c.R.Violate("c08v:forwarded-client-value-lost", fmt.Sprintf("Forwarded %q, client sent %q", fw, s), in)
				return
			}
		} else if len(fw) != 1 || !strings.HasPrefix(fw[0], "for="+peer+";") {
			c.R.Violate("c08v:forwarded-for", fmt.Sprintf("Forwarded %q must start with for=%s", fw, peer), in)
			return
		}
		if cs.LocalIP != "" && !strings.Contains(fw[0], "by="+cs.LocalIP) {
			c.R.Violate("c08v:forwarded-by", fmt.Sprintf("Forwarded %q lacks by=%s", fw, cs.LocalIP), in)
			return
		}
		if c.R.WantSample() && len(cs.Headers) > 1 {
			c.R.Sample(map[string]any{"case": cs, "headers_after": h})
		}
	})
}
