package main

import (
	"fmt"
	"strings"
	"time"

	"verif/harness/internal/fakeconsul"
)

func init() { register("c14-poison", "C14", c14Poison) }

// c14Poison: registrations fabio cannot express sit next to well-formed services in the (fake) Consul
// catalog of the real binary: the good services must be routed, later changes to them must still be
// applied while the poison stays registered, and fabio must stay alive.
func c14Poison(c *ctx) {
	c.R.Rule = "the real binary against the fake Consul: poison registrations (tags with quotes/backslashes/newlines, weight=abc|Inf|NaN|1e400, redirect without URL, prefixes with tabs, invalid globs, service names with spaces) next to well-formed services; after every barrier the good services' routes must be in /api/routes, changes to good services must still be applied, fabio must stay alive. evaluations = barriers; non-trivial = barrier with at least one poison registration present; distinct by (poison set, step)"
	rg, err := newRig(c, "poison", []string{"-proxy.addr", fmt.Sprintf("127.0.0.1:%d", freePort()), "-log.level", "WARN"})
	if err != nil {
		c.R.Inconcl("cannot start fabio: %v", err)
		return
	}
	defer rg.close()
	r := c.rng(1414)
	poisonTags := [][]string{
		{"urlprefix-/p1", "q\"uote"}, {"urlprefix-/p2", "back\\slash"}, {"urlprefix-/p3", "new\nline"}, {"urlprefix-/p4 weight=abc"}, {"urlprefix-/p5 weight=Inf"},
		{"urlprefix-/p6 weight=NaN"}, {"urlprefix-/p7 weight=1e400"}, {"urlprefix-/p8 redirect=301,"}, {"urlprefix-/p9\tx"}, {"urlprefix-/[unclosed"}, {"urlprefix-/{"},
		{"urlprefix-p.test/a\nroute del good0"}, {"urlprefix-/ok", "tab\there"}, {"urlprefix-/p10 weight=5e-324"}, {"urlprefix-legacy.test/caf\uFFFD"}, {"urlprefix-legacy.test/caf\xe9"}, {"urlprefix-/p11 weight=1e308", "x"},
	}
	// the last two: names the agent accepts at registration and whose catalog lookup it then refuses for good
	poisonNames := []string{"bad svc", "bad\"svc", "ok-name", "api\u00a0v2", "tab\tname"}
	n := c.scale(c.pick(150, 1500))
	goodPort := map[string]int{}
	for i := 0; i < n; i++ {
		ngood := 1 + r.Intn(3)
		var poison []string
		refused := false
		rg.agent.Update(func(nodes map[string]*fakeconsul.Node, insts map[string]*fakeconsul.Instance) {
			nodes["n0"] = &fakeconsul.Node{Name: "n0", Address: "10.3.0.1", Serf: "passing"}
			for k := range insts {
				delete(insts, k)
			}
			for g := 0; g < ngood; g++ {
				name := fmt.Sprintf("good%d", g)
				goodPort[name] = 7000 + r.Intn(100) // a change to the good service in every step
				insts["n0/"+name] = &fakeconsul.Instance{Node: "n0", ID: name, Name: name, Address: "10.3.0.2", Port: goodPort[name], Tags: []string{fmt.Sprintf("urlprefix-%s.test/", name), "v1"}, Checks: []fakeconsul.Check{{CheckID: "c" + name, Status: "passing"}}}
			}
			for p := r.Intn(4); p > 0; p-- {
				tags := choose(r, poisonTags)
				name := choose(r, poisonNames)
				id := fmt.Sprintf("poison%d", p)
				poison = append(poison, fmt.Sprintf("%q %q", name, tags))
				refused = refused || strings.ContainsAny(name, "\u00a0\t")
				insts["n0/"+id] = &fakeconsul.Instance{Node: "n0", ID: id, Name: name, Address: "10.3.0.9", Port: 9000 + p, Tags: tags, Checks: []fakeconsul.Check{{CheckID: "c" + id, Status: "passing"}}}
			}
		})
		if refused { // a registration whose catalog lookup the agent refuses for as long as it exists
			// the service monitor cannot finish a round while such a registration exists (it keeps asking), so the logical
			// barrier has nothing to wait for: the good services' routes must simply show up, and a bounded wait decides
			c.R.Eval(1)
			c.R.Nontrivial(fmt.Sprintf("%v|%d", poison, i))
			c.R.Count("steps_with_a_refused_catalog_lookup", 1)
			deadline := time.Now().Add(10 * time.Second)
			for {
				got, err := rg.routes()
				missing := ""
				for g := 0; err == nil && g < ngood; g++ {
					name := fmt.Sprintf("good%d", g)
					want := fmt.Sprintf("http://10.3.0.2:%d/", goodPort[name])
					found := false
					for _, a := range got {
						found = found || (a.Service == name && a.Host == name+".test" && a.Dst == want)
					}
					if !found {
						missing = name + " -> " + want
					}
				}
				if err == nil && missing == "" {
					break
				}
				if !rg.proc.Alive() {
					c.R.Violate("c14p:registration-killed-fabio", fmt.Sprintf("fabio died with these registrations in the catalog: %v\n%s", poison, rg.proc.LogTail(2500)), map[string]any{"poison": poison})
					return
				}
				if time.Now().After(deadline) {
					c.R.Violate("c14p:good-service-blocked-by-poison:catalog-lookup-refused", fmt.Sprintf("step %d: 10s after the change the route %s is still missing while a registration whose catalog lookup the agent refuses is present: %v", i, missing, poison), map[string]any{"poison": poison})
					return
				}
				time.Sleep(100 * time.Millisecond)
			}
			continue
		}
		if err := rg.barrier(); err != nil {
			if !rg.proc.Alive() {
				c.R.Violate("c14p:registration-killed-fabio", fmt.Sprintf("fabio died with these registrations in the catalog: %v\n%s", poison, rg.proc.LogTail(2500)), map[string]any{"poison": poison})
			} else {
				c.R.Inconcl("barrier: %v", err)
			}
			return
		}
		got, err := rg.routes()
		if err != nil {
			c.R.Inconcl("routes: %v", err)
			return
		}
		c.R.Eval(1)
		if len(poison) > 0 {
			c.R.Nontrivial(fmt.Sprintf("%v|%d", poison, i))
		}
		for g := 0; g < ngood; g++ {
			name := fmt.Sprintf("good%d", g)
			want := fmt.Sprintf("http://10.3.0.2:%d/", goodPort[name])
			found := false
			for _, a := range got {
				if a.Service == name && a.Host == name+".test" && a.Dst == want {
					found = true
				}
			}
			if !found {
				var have []string
				for _, a := range got {
					have = append(have, a.Service+" "+a.Host+a.Path+" "+a.Dst)
				}
				c.R.Violate("c14p:good-service-blocked-by-poison", fmt.Sprintf("step %d: route of %s to %s is missing while these registrations are in the catalog: %v; table: %s", i, name, want, poison, strings.Join(have, "; ")), map[string]any{"poison": poison})
				return
			}
		}
		if c.R.WantSample() && len(poison) > 0 {
			c.R.Sample(map[string]any{"poison_registrations": poison, "good_services": ngood, "table_targets": len(got)})
		}
	}
}
