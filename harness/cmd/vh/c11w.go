package main

import (
	"bytes"
	"crypto/tls"
	"fmt"
	"net"
	"os"
	"path/filepath"
	"strings"
	"time"

	"verif/harness/internal/fabioproc"
)

func init() { register("c11-wire", "C11", c11Wire) }

// c11Wire: certificate selection and dynamic reload through the real binary: several TLS listeners which share one
// certificate source but differ in strictmatch (in both orders), one listener on a source of its own; real handshakes
// with and without SNI; the directory of the shared source is rewritten while fabio runs (new generation, broken
// material, recovery).
func c11Wire(c *ctx) {
	c.R.Rule = "[c11-wire] the real binary with four TLS listeners: two non-strict and one strict on the same path certificate source (configured before and after each other), one strict on a source of its own (refresh 1s); real TLS 1.2/1.3 handshakes with exact, wildcard-covered, unknown, upper-case and absent server names; the leaf presented must be the one the statement names for the listener's own strictness and the set on disk (a strict listener fails the handshake for an uncovered name); start-up: a listener accepts connections before the first, asynchronous load of its source is installed, so until it has presented its first certificate (bound 30s, counter startup_handshakes_before_first_set) a handshake may fail but never present anything else than the reference's certificate, afterwards no handshake may fail; the shared directory is replaced by a new generation (must be in effect within 5 refresh periods + 2s, no certificate outside old and new generation is ever presented), then garbled (the working set keeps being presented), then repaired. evaluations = handshakes; non-trivial = handshake on a strict listener or with an uncovered/absent name or during a reload; distinct by (listener, name, phase)"
	dirA, dirB := filepath.Join(c.Dir, "c11w-shared"), filepath.Join(c.Dir, "c11w-own")
	os.MkdirAll(dirA, 0o755)
	os.MkdirAll(dirB, 0o755)
	write := func(dir string, set c11Set) {
		for _, ct := range set {
			base := strings.TrimSuffix(ct.File, "-cert.pem")
			// key first: a certificate without its key is unusable material
			os.WriteFile(filepath.Join(dir, base+"-key.pem"), ct.KeyPEM, 0o600)
			os.WriteFile(filepath.Join(dir, base+"-cert.pem"), ct.CertPEM, 0o644)
		}
	}
	gen := func(g int) c11Set {
		return c11Set{c11Make("a-cert.pem", "a.test"), c11Make("b-cert.pem", "b.test", "b.test", "alt.b.test"), c11Make("w-cert.pem", "*.w.test", "*.w.test"), c11Make("c-cert.pem", "cn.c.test", "san.c.test")}
	}
	setA := gen(0)
	setB := c11Set{c11Make("o-cert.pem", "own.test"), c11Make("p-cert.pem", "*.own.test", "*.own.test")}
	write(dirA, setA)
	write(dirB, setB)
	type lst struct {
		name, addr string
		strict     bool
		set        *c11Set
	}
	ls := []*lst{
		{"loose-before", fmt.Sprintf("127.0.0.1:%d", freePort()), false, &setA},
		{"strict", fmt.Sprintf("127.0.0.1:%d", freePort()), true, &setA},
		{"loose-after", fmt.Sprintf("127.0.0.1:%d", freePort()), false, &setA},
		{"own-strict", fmt.Sprintf("127.0.0.1:%d", freePort()), true, &setB},
	}
	addr := fmt.Sprintf("%s;cs=shared,%s;cs=shared;strictmatch=true,%s;cs=shared,%s;cs=own;strictmatch=true", ls[0].addr, ls[1].addr, ls[2].addr, ls[3].addr)
	rg, err := newRig(c, "certs", []string{"-proxy.addr", addr, "-proxy.cs", fmt.Sprintf("cs=shared;type=path;cert=%s;refresh=1s,cs=own;type=path;cert=%s;refresh=1s", dirA, dirB), "-log.level", "WARN"})
	if err != nil {
		c.R.Inconcl("cannot start fabio: %v", err)
		return
	}
	defer rg.close()
	for _, l := range ls {
		if !fabioproc.WaitListening(l.addr, 20*time.Second) {
			c.R.Inconcl("listener %s did not come up", l.addr)
			return
		}
	}
	// handshake returns the serial of the leaf presented ("" when the handshake failed)
	handshake := func(l *lst, sni string, maxVer uint16) (string, error) {
		d := &net.Dialer{Timeout: 10 * time.Second}
		conn, err := tls.DialWithDialer(d, "tcp", l.addr, &tls.Config{ServerName: sni, InsecureSkipVerify: true, MaxVersion: maxVer})
		if err != nil {
			return "", err
		}
		defer conn.Close()
		pcs := conn.ConnectionState().PeerCertificates
		if len(pcs) == 0 {
			return "", fmt.Errorf("no certificate")
		}
		return pcs[0].SerialNumber.String(), nil
	}
	names := []string{"a.test", "A.Test", "b.test", "alt.b.test", "x.w.test", "Y.W.TEST", "deep.x.w.test", "w.test", "unknown.test", "", "own.test", "z.own.test", "cn.c.test", "san.c.test"}
	r := c.rng(1111)
	serialsOf := func(sets ...c11Set) map[string]string {
		m := map[string]string{}
		for _, s := range sets {
			for _, ct := range s {
				m[ct.Serial] = ct.CN
			}
		}
		return m
	}
	// check performs one handshake and compares with the reference for the given sets (several when a reload is under way)
	startupN := 0
	check := func(l *lst, sni, phase string, sets ...c11Set) string {
		var ver uint16
		if phase == "startup" {
			// how many handshakes the start-up phase takes depends on timing: it does not draw from the case stream
			ver = []uint16{tls.VersionTLS12, tls.VersionTLS13, 0}[startupN%3]
			startupN++
		} else {
			ver = choose(r, []uint16{tls.VersionTLS12, tls.VersionTLS13, 0})
		}
		got, err := handshake(l, sni, ver)
		c.R.Eval(1)
		if l.strict || sni == "" || phase != "steady" || strings.Contains(sni, "unknown") {
			c.R.Nontrivial(l.name + "|" + sni + "|" + phase)
		}
		allowed := map[string]bool{}
		// start-up: nothing has been loaded yet, so there is no "most recently loaded set" to present from
		mayFail := phase == "startup"
		for _, s := range sets {
			acc := c11Acceptable(s, sni, l.strict)
			if len(acc) == 0 {
				mayFail = true
			}
			for k := range acc {
				allowed[k] = true
			}
		}
		in := map[string]any{"listener": l.name, "strictmatch": l.strict, "server_name": sni, "phase": phase}
		switch {
		case err != nil && !mayFail:
			c.R.Violate("c11w:handshake-failed:"+l.name, fmt.Sprintf("listener %s (strictmatch=%v), server name %q, phase %s: handshake failed (%v) although a certificate must be presented", l.name, l.strict, sni, phase, err), in)
		case err == nil && !allowed[got]:
			known := serialsOf(append(sets, setB)...)
			who := known[got]
			if who == "" {
				who = "a certificate of no current set"
			}
			sig := "c11w:wrong-certificate:" + l.name
			if len(allowed) == 0 {
				sig = "c11w:strict-listener-presented-certificate:" + l.name
			}
			c.R.Violate(sig, fmt.Sprintf("listener %s (strictmatch=%v), server name %q, phase %s: presented %s (serial %s); allowed: %v", l.name, l.strict, sni, phase, who, got, allowedNames(allowed, known)), in)
		}
		if c.R.WantSample() && (l.strict || sni == "") {
			c.R.Sample(map[string]any{"listener": l.name, "strictmatch": l.strict, "server_name": sni, "presented_serial": got, "handshake_error": fmt.Sprint(err)})
		}
		return got
	}
	// ---- start-up: every listener has a store of its own which its source fills asynchronously (cert.TLSConfig starts
	// the watcher and returns; main.go binds the listener right away), so a listener may accept connections before its first
	// set is installed. The statement speaks about the most recently loaded set: until a listener has presented its first
	// certificate a handshake may fail; a certificate presented that early must still be the one the reference names, the
	// first set has to be in effect within startBound, and from then on (phase steady) no handshake may fail any more.
	const startBound = 30 * time.Second
	for _, l := range ls {
		sni := (*l.set)[0].CN
		for t0 := time.Now(); ; time.Sleep(20 * time.Millisecond) {
			if check(l, sni, "startup", *l.set) != "" {
				break
			}
			c.R.Count("startup_handshakes_before_first_set", 1)
			if time.Since(t0) > startBound {
				c.R.Violate("c11w:initial-set-not-in-effect:"+l.name, fmt.Sprintf("listener %s (strictmatch=%v): %s after it started to accept connections no handshake for %q has been presented a certificate although the source's directory has held a usable set since before fabio started", l.name, l.strict, time.Since(t0).Round(time.Millisecond), sni), nil)
				return
			}
		}
	}
	rounds := c.scale(c.pick(6, 40))
	for i := 0; i < rounds; i++ {
		for _, l := range ls {
			for _, n := range names {
				check(l, n, "steady", *l.set)
			}
		}
	}
	// ---- reload: a new generation of the shared set ----
	cycles := c.scale(c.pick(2, 10))
	for cy := 0; cy < cycles; cy++ {
		old := setA
		next := gen(cy + 1)
		write(dirA, next)
		t0 := time.Now()
		bound := 5*time.Second + 2*time.Second
		seenNew := map[string]bool{}
		for len(seenNew) < 3 {
			for _, l := range ls[:3] {
				got := check(l, "a.test", "reload", old, next)
				if got == next[0].Serial {
					seenNew[l.name] = true
				}
				check(l, choose(r, names), "reload", old, next)
			}
			if time.Since(t0) > bound {
				c.R.Violate("c11w:new-set-not-in-effect", fmt.Sprintf("%s after the shared certificate directory was replaced only %d of 3 listeners present the new certificate for a.test (refresh 1s)", time.Since(t0).Round(time.Millisecond), len(seenNew)), nil)
				return
			}
			time.Sleep(40 * time.Millisecond)
		}
		c.R.MaxCounter("reload_visible_after_ms_max", time.Since(t0).Milliseconds())
		setA = next
		// one more refresh period: stragglers of a reload in progress are tolerated above, from now on only the new set
		time.Sleep(1200 * time.Millisecond)
		for _, l := range ls {
			for _, n := range names {
				check(l, n, "steady", *l.set)
			}
		}
		// ---- unusable material next to the working set ----
		if cy%3 != 0 {
			os.WriteFile(filepath.Join(dirA, "zz-cert.pem"), []byte("-----BEGIN CERTIFICATE-----\ngarbage\n-----END CERTIFICATE-----\n"), 0o644)
			os.WriteFile(filepath.Join(dirA, "zz-key.pem"), []byte("garbage"), 0o600)
		}
		if cy%3 == 1 {
			os.WriteFile(filepath.Join(dirA, "a-cert.pem"), setA[0].CertPEM[:len(setA[0].CertPEM)/2], 0o644) // a working certificate garbled
		} else if cy%3 == 0 {
			// (nothing else is wrong with the directory this time) a working certificate's file blown up beyond what the loader reads (a log written to the wrong path)
			os.WriteFile(filepath.Join(dirA, "b-cert.pem"), bytes.Repeat([]byte("not a certificate\n"), 70000), 0o644)
			os.WriteFile(filepath.Join(dirA, "b-key.pem"), bytes.Repeat([]byte("not a key\n"), 120000), 0o600)
		}
		for t1 := time.Now(); time.Since(t1) < 2500*time.Millisecond; time.Sleep(60 * time.Millisecond) {
			for _, l := range ls[:3] {
				check(l, choose(r, names), "broken-material", setA)
			}
		}
		os.Remove(filepath.Join(dirA, "zz-cert.pem"))
		os.Remove(filepath.Join(dirA, "zz-key.pem"))
		write(dirA, setA)
		time.Sleep(1200 * time.Millisecond)
		c.R.Count("reload_cycles", 1)
	}
}

func allowedNames(allowed map[string]bool, known map[string]string) []string {
	var out []string
	for s := range allowed {
		out = append(out, known[s]+"#"+s)
	}
	if len(out) == 0 {
		out = []string{"none (handshake must fail)"}
	}
	return out
}
