package main

import (
	"fmt"
	"math/rand"
	"net"
	"os"
	"sort"
	"strconv"
	"strings"
	"sync"
	"sync/atomic"
	"time"

	"github.com/fabiolb/fabio/registry/consul"
	"github.com/hashicorp/consul/api"

	"verif/harness/internal/fakeconsul"
	"verif/harness/internal/refmodel"
)

func init() {
	register("c01-health", "C01", c01Health)
	register("c01-pipeline", "C01", c01Pipeline)
}

// ---------- reference health rule (per instance, not per check) ----------

type c01Inst struct {
	Node, ID string
	Tagged   bool     // carries a tag with the prefix
	Checks   []string // statuses of its service checks
	Maint    bool
}

type c01Node struct {
	Serf  string // "", passing, critical
	Maint bool
}

func c01Healthy(in c01Inst, nd c01Node, accepted []string, strict bool) bool {
	if !in.Tagged || nd.Serf == "critical" || nd.Maint || in.Maint {
		return false
	}
	ok := 0
	for _, s := range in.Checks {
		for _, a := range accepted {
			if s == a {
				ok++
				break
			}
		}
	}
	if ok == 0 {
		return false
	}
	return !strict || ok == len(in.Checks)
}

var c01Statuses = []string{"passing", "warning", "critical"}

func c01StatusLists() [][]string {
	var out [][]string
	for m := 1; m < 8; m++ {
		var l []string
		for i, s := range c01Statuses {
			if m&(1<<i) != 0 {
				l = append(l, s)
			}
		}
		out = append(out, l)
	}
	return out
}

func c01Checks(nodes map[string]c01Node, insts []c01Inst) []*api.HealthCheck {
	var out []*api.HealthCheck
	for _, n := range sortedKeys(nodes) {
		nd := nodes[n]
		if nd.Serf != "" {
			out = append(out, &api.HealthCheck{Node: n, CheckID: "serfHealth", Status: nd.Serf})
		}
		if nd.Maint {
			out = append(out, &api.HealthCheck{Node: n, CheckID: "_node_maintenance", Status: "critical"})
		}
	}
	for _, in := range insts {
		tags := []string{"plain"}
		if in.Tagged {
			tags = []string{"plain", "urlprefix-/" + in.ID}
			if strings.HasSuffix(in.ID, "1") {
				// white space around a routing tag is ignored where the route command is built: it is a routing tag
				tags = []string{"plain", "  urlprefix-/" + in.ID + " "}
			}
		}
		for k, s := range in.Checks {
			out = append(out, &api.HealthCheck{Node: in.Node, CheckID: fmt.Sprintf("service:%s:%d", in.ID, k), Status: s, ServiceID: in.ID, ServiceName: "svc-" + in.ID, ServiceTags: tags})
		}
		if in.Maint {
			out = append(out, &api.HealthCheck{Node: in.Node, CheckID: "_service_maintenance:" + in.ID, Status: "critical", ServiceID: in.ID, ServiceName: "svc-" + in.ID, ServiceTags: tags})
		}
	}
	return out
}

func c01Eval(c *ctx, nodes map[string]c01Node, insts []c01Inst, accepted []string, strict bool, r *rand.Rand) {
	c.R.Eval(1)
	checks := c01Checks(nodes, insts)
	if r != nil {
		r.Shuffle(len(checks), func(i, j int) { checks[i], checks[j] = checks[j], checks[i] })
	}
	var got []*api.HealthCheck
	in := map[string]any{"nodes": nodes, "instances": insts, "accepted": accepted, "strict": strict}
	if p := safely(func() {
		got = consul.VerifPassingServices(consul.VerifChecksWithTagPrefix("urlprefix-", checks), accepted, strict)
	}); p != "" {
		c.R.Violate("c01:health-panic", p, in)
		return
	}
	gotSet := map[string]bool{}
	for _, g := range got {
		gotSet[g.Node+"/"+g.ServiceID] = true
	}
	interesting := false
	for _, i := range insts {
		want := c01Healthy(i, nodes[i.Node], accepted, strict)
		k := i.Node + "/" + i.ID
		if len(i.Checks) > 1 || i.Maint || nodes[i.Node].Maint || nodes[i.Node].Serf == "critical" {
			interesting = true
		}
		if want != gotSet[k] {
			why := "healthy instance dropped"
			if gotSet[k] {
				why = "unhealthy instance kept"
			}
			c.R.Violate("c01:health-rule:"+strings.ReplaceAll(why, " ", "-"), fmt.Sprintf("%s: instance %s checks %v maint=%v tagged=%v on node %+v, accepted %v strict=%v", why, k, i.Checks, i.Maint, i.Tagged, nodes[i.Node], accepted, strict), in)
			return
		}
		delete(gotSet, k)
	}
	if len(gotSet) > 0 {
		c.R.Violate("c01:health-rule:unknown-instance", fmt.Sprintf("result names instances that do not exist: %v", sortedKeys(gotSet)), in)
	}
	if interesting {
		c.R.Nontrivial(fmt.Sprintf("%v|%v|%v|%v", nodes, insts, accepted, strict))
	}
	if c.R.WantSample() && interesting {
		c.R.Sample(in)
	}
}

func c01Health(c *ctx) {
	c.R.Rule = "generated multisets of Consul health checks (<=3 nodes x <=3 instances x <=3 service checks; serfHealth passing/critical/absent; node and service maintenance; instances with/without the tag prefix), every non-empty accepted-status list, strict and non-strict, through checksWithTagPrefix + passingServices vs a per-instance reference rule; the thorough tier also enumerates the complete scope 1 node x 2 instances x <=2 checks. non-trivial = case with several checks on an instance, maintenance or a dead agent; distinct by case"
	lists := c01StatusLists()
	n := c.scale(c.pick(300000, 6000000))
	parallel(c, n, func(r *rand.Rand, i int) {
		nodes := map[string]c01Node{}
		nn := 1 + r.Intn(3)
		for k := 0; k < nn; k++ {
			nodes[fmt.Sprintf("n%d", k)] = c01Node{Serf: choose(r, []string{"", "passing", "passing", "critical"}), Maint: r.Intn(6) == 0}
		}
		var insts []c01Inst
		for k := r.Intn(4); k > 0; k-- {
			in := c01Inst{Node: fmt.Sprintf("n%d", r.Intn(nn)), ID: fmt.Sprintf("i%d", len(insts)), Tagged: r.Intn(5) > 0, Maint: r.Intn(6) == 0}
			if r.Intn(4) == 0 && len(insts) > 0 {
				in.ID = insts[0].ID // the same service id on another node is a different instance
				for _, o := range insts {
					if o.Node == in.Node && o.ID == in.ID {
						in.ID = fmt.Sprintf("i%d", len(insts))
					}
				}
			}
			for m := r.Intn(4); m > 0; m-- {
				in.Checks = append(in.Checks, choose(r, c01Statuses))
			}
			insts = append(insts, in)
		}
		c01Eval(c, nodes, insts, choose(r, lists), r.Intn(2) == 0, r)
	})
	if c.thorough() && c.Scale == 1 {
		// complete small scope
		serfs := []string{"", "passing", "critical"}
		var cnt int64
		checkSets := [][]string{nil}
		for _, a := range c01Statuses {
			checkSets = append(checkSets, []string{a})
			for _, b := range c01Statuses {
				checkSets = append(checkSets, []string{a, b})
			}
		}
		for _, serf := range serfs {
			for _, nm := range []bool{false, true} {
				for _, c1 := range checkSets {
					for _, c2 := range checkSets {
						for f := 0; f < 16; f++ {
							insts := []c01Inst{{Node: "n0", ID: "i0", Tagged: f&1 != 0, Maint: f&2 != 0, Checks: c1}, {Node: "n0", ID: "i1", Tagged: f&4 != 0, Maint: f&8 != 0, Checks: c2}}
							for _, l := range lists {
								for _, strict := range []bool{false, true} {
									c01Eval(c, map[string]c01Node{"n0": {Serf: serf, Maint: nm}}, insts, l, strict, nil)
									cnt++
								}
							}
						}
					}
				}
			}
		}
		c.R.SetCounter("exhaustive_small_scope_cases", cnt)
		c.R.Exhaustive = true
	}
}

// ---------- process level: registry history -> active table ----------

type c01Tag struct {
	Host, Path string
	Opts       []string // k=v, as written
	Proto      string
	Weight     float64
}

func (t c01Tag) text() string {
	s := "urlprefix-" + t.Host + t.Path
	o := append([]string{}, t.Opts...)
	if t.Proto != "" {
		o = append(o, "proto="+t.Proto)
	}
	if t.Weight > 0 {
		o = append(o, "weight="+strconv.FormatFloat(t.Weight, 'f', -1, 64))
	}
	if len(o) > 0 {
		s += " " + strings.Join(o, " ")
	}
	return s
}

type c01Svc struct {
	Node, ID, Name, Addr string
	Port                 int
	RTags                []c01Tag
	Other                []string
	Checks               []fakeconsul.Check
	Maint                bool
}

type c01Model struct {
	nodes  map[string]*fakeconsul.Node
	svcs   map[string]*c01Svc // node/id
	manual []refmodel.Def
	// broken: a line the route command parser rejects, put into the KV override next to the commands (an operator's typo).
	// While it is there the commands of the last override that was accepted (lastGood) stay in force and the table goes on
	// following the registry.
	broken   string
	lastGood []refmodel.Def
}

func (m *c01Model) expected(accepted []string, strict bool) refmodel.Table {
	t := refmodel.Table{}
	// service routes of healthy instances
	for _, k := range sortedKeys(m.svcs) {
		s := m.svcs[k]
		nd := m.nodes[s.Node]
		var st []string
		for _, ch := range s.Checks {
			st = append(st, ch.Status)
		}
		ndm := c01Node{}
		if nd != nil {
			ndm = c01Node{Serf: nd.Serf, Maint: nd.Maintenance}
		}
		if !c01Healthy(c01Inst{Node: s.Node, ID: s.ID, Tagged: len(s.RTags) > 0, Checks: st, Maint: s.Maint}, ndm, accepted, strict) {
			continue
		}
		addr := s.Addr
		if addr == "" && nd != nil {
			addr = nd.Address
		}
		hp := net.JoinHostPort(addr, strconv.Itoa(s.Port))
		for _, rt := range s.RTags {
			dst := "http://" + hp + "/"
			switch rt.Proto {
			case "tcp", "https", "grpc", "grpcs":
				dst = rt.Proto + "://" + hp
			}
			var opts map[string]string
			if len(rt.Opts) > 0 {
				opts = map[string]string{}
				for _, o := range rt.Opts {
					p := strings.SplitN(o, "=", 2)
					opts[p[0]] = p[1]
				}
			}
			t.Apply(refmodel.Def{Cmd: "add", Service: s.Name, Src: rt.Host + rt.Path, Dst: dst, Weight: rt.Weight, Tags: s.Other, Opts: opts})
		}
	}
	// the operator's commands on top
	inForce := m.manual
	if m.broken != "" {
		inForce = m.lastGood
	}
	for _, d := range inForce {
		t.Apply(d)
	}
	t.Normalize()
	return t
}

// healthyKeys lists "service dst" of every routed destination of instances that are healthy by the registry alone.
func (m *c01Model) healthyKeys(accepted []string, strict bool) map[string]bool {
	mm := *m
	mm.manual, mm.lastGood = nil, nil
	out := map[string]bool{}
	for _, f := range mm.expected(accepted, strict).Flatten() {
		out[f.Service+" "+f.Dst] = true
	}
	return out
}

func c01Compare(want refmodel.Table, got []apiRoute) string {
	w := want.Flatten()
	var g []refmodel.FlatTarget
	for _, a := range got {
		om := optsMap(a.Opts)
		if len(om) == 0 {
			om = nil
		}
		g = append(g, refmodel.FlatTarget{Host: a.Host, Path: a.Path, Service: a.Service, Dst: a.Dst, Weight: a.Weight, Tags: a.Tags, Opts: om})
	}
	key := func(f refmodel.FlatTarget) string {
		return fmt.Sprintf("%s|%s|%s|%s|%s", f.Host, f.Path, f.Service, f.Dst, strings.Join(f.Tags, ","))
	}
	// targets that differ only in weight or options are ordered by those (rounded: the two sides may differ in the last bits)
	key2 := func(f refmodel.FlatTarget) string { return fmt.Sprintf("%s|%.6f|%v", key(f), f.Weight, f.Opts) }
	sort.SliceStable(w, func(i, j int) bool { return key2(w[i]) < key2(w[j]) })
	sort.SliceStable(g, func(i, j int) bool { return key2(g[i]) < key2(g[j]) })
	if len(w) != len(g) {
		return fmt.Sprintf("table has %d targets, model expects %d\n table: %s\n model: %s", len(g), len(w), flatStr(g), flatStr(w))
	}
	for i := range w {
		if key(w[i]) != key(g[i]) || !eqOpts(w[i].Opts, g[i].Opts) || abs(w[i].Weight-g[i].Weight) > 1e-9 {
			return fmt.Sprintf("target %d differs\n table: %s\n model: %s", i, flatStr(g[i:i+1]), flatStr(w[i:i+1]))
		}
	}
	return ""
}

func abs(f float64) float64 {
	if f < 0 {
		return -f
	}
	return f
}

type c01Config struct {
	Required string
	Status   []string
	Extra    []string
}

func c01Pipeline(c *ctx) {
	c.R.Rule = "the real fabio binary against a fake Consul agent: generated histories of registry steps (register/deregister instances with urlprefix tags + options, check flips, added/removed checks, serfHealth flips, node/service maintenance, KV manual commands; bursts of several steps) under {checksRequired one, all} x {status [passing], [passing,warning]}; after every logical barrier /api/routes must equal the model (healthy tagged instances, then manual commands on top, reference weights); a poller checks that an instance that became unhealthy never reappears without being healed. evaluations = barriers checked; non-trivial = barrier after a step that changed the expected table; distinct by expected table text"
	cfgs := []c01Config{{"one", []string{"passing"}, nil}, {"all", []string{"passing", "warning"}, []string{"-registry.consul.serviceMonitors", "4"}}}
	if c.thorough() {
		cfgs = append(cfgs, c01Config{"all", []string{"passing"}, []string{"-registry.consul.serviceMonitors", "4"}},
			c01Config{"one", []string{"passing", "warning"}, nil},
			c01Config{"one", []string{"passing"}, []string{"-registry.consul.serviceMonitors", "3"}})
	}
	nbar := c.scale(c.pick(150, 2500))
	var wg sync.WaitGroup
	for ci, cf := range cfgs {
		wg.Add(1)
		go func(ci int, cf c01Config) {
			defer wg.Done()
			c01History(c, ci, cf, nbar)
		}(ci, cf)
	}
	wg.Wait()
}

func c01History(c *ctx, ci int, cf c01Config, nbar int) {
	args := append([]string{"-proxy.addr", fmt.Sprintf("127.0.0.1:%d", freePort()), "-registry.consul.checksRequired", cf.Required,
		"-registry.consul.service.status", strings.Join(cf.Status, ",")}, cf.Extra...)
	rg, err := newRig(c, fmt.Sprintf("c01-%d", ci), args)
	if err == nil {
		// neighbours of the override's key that merely share its text as a prefix (a backup copy, another tool's keys): they
		// are not "the kvpath key and its subkeys", their contents are not the operator's commands
		rg.agent.PutKV("fabio/config.bak", "route del web\nroute del db")
		rg.agent.PutKV("fabio/configurator/ui", "{\"not\": \"a route command\"}")
	}
	if err != nil {
		c.R.Inconcl("cannot start fabio: %v", err)
		return
	}
	defer rg.close()
	rg.agent.SetDefaultWait(2 * time.Second)
	strict := cf.Required == "all"
	r := c.rng(int64(500 + ci))
	m := &c01Model{nodes: map[string]*fakeconsul.Node{}, svcs: map[string]*c01Svc{}}
	for k := 0; k < 3; k++ {
		n := &fakeconsul.Node{Name: fmt.Sprintf("node%d", k), Address: fmt.Sprintf("10.0.%d.1", k), Serf: "passing"}
		if k == 2 {
			n.Serf = "" // a node without serf check
		}
		m.nodes[n.Name] = n
	}
	m.nodes["node1.x"] = &fakeconsul.Node{Name: "node1.x", Address: "10.0.3.1", Serf: "passing"}
	// from the start: two instances of one service whose node and id read the same when written with a dot in between
	// ("node1"+"x.web-9" and "node1.x"+"web-9"); the first healthy, the second critical
	m.svcs["node1/x.web-9"] = &c01Svc{Node: "node1", ID: "x.web-9", Name: "web", Addr: "10.1.0.91", Port: 8091, RTags: []c01Tag{{Host: "a.test", Path: "/twin-ok"}},
		Checks: []fakeconsul.Check{{CheckID: "chk-twin-a", Status: "passing"}}}
	m.svcs["node1.x/web-9"] = &c01Svc{Node: "node1.x", ID: "web-9", Name: "web", Addr: "10.1.0.92", Port: 8092, RTags: []c01Tag{{Host: "a.test", Path: "/twin-critical"}},
		Checks: []fakeconsul.Check{{CheckID: "chk-twin-b", Status: "critical"}}}
	var pushedIdx uint64
	push := func() {
		pushedIdx = rg.agent.Update(func(nodes map[string]*fakeconsul.Node, insts map[string]*fakeconsul.Instance) {
			for k := range nodes {
				delete(nodes, k)
			}
			for k, v := range m.nodes {
				cp := *v
				nodes[k] = &cp
			}
			for k := range insts {
				delete(insts, k)
			}
			for k, s := range m.svcs {
				tags := append([]string{}, s.Other...)
				for _, rt := range s.RTags {
					tags = append(tags, rt.text())
				}
				insts[k] = &fakeconsul.Instance{Node: s.Node, ID: s.ID, Name: s.Name, Address: s.Addr, Port: s.Port, Tags: tags, Checks: append([]fakeconsul.Check{}, s.Checks...), Maintenance: s.Maint}
			}
		})
	}
	manualText := func() string {
		var lines []string
		for _, d := range m.manual {
			lines = append(lines, d.Text())
		}
		if m.broken != "" {
			lines = append(lines, m.broken)
		}
		return strings.Join(lines, "\n")
	}
	pushManual := func() {
		if m.broken == "" {
			m.lastGood = append([]refmodel.Def(nil), m.manual...)
		}
		rg.setManual(manualText())
	}
	// background poller for the no-resurrection clause
	var stop atomic.Bool
	var pollWG sync.WaitGroup
	type obs struct {
		t   time.Time
		raw string
	}
	var obsMu sync.Mutex
	var seen []obs
	pollWG.Add(1)
	go func() {
		defer pollWG.Done()
		last := "\x00"
		for !stop.Load() {
			t0 := time.Now() // stamped before the request: the answer is at least this new
			raw, err := rg.rawRoutes()
			if err == nil && raw != last {
				obsMu.Lock()
				seen = append(seen, obs{t0, raw})
				obsMu.Unlock()
				last = raw
			}
			time.Sleep(2 * time.Millisecond)
		}
	}()
	type unhealthyEvent struct {
		dst          string
		after        time.Time // barrier completed: fabio has observed the unhealthy state
		healedBefore time.Time
		notRaw       string // quiet step: the table that was active before the state changed is not a newly installed one
	}
	var events []*unhealthyEvent
	names := []string{"web", "api", "db", "cache"}
	biased := []string{"passing", "passing", "passing", "warning", "critical"} // keep a good share of instances routable
	hosts := []string{"", "a.test", "b.test", "A.Test"}
	paths := []string{"/", "/web", "/api/v1"}
	lastText := ""
	healthyPrev := map[string]bool{}
	for b := 0; b < nbar; b++ {
		burst := 1
		if r.Intn(4) == 0 {
			burst = 2 + r.Intn(5)
		}
		var steps []string
		for s := 0; s < burst; s++ {
			keys := sortedKeys(m.svcs)
			switch k := r.Intn(15); {
			case k < 4 || len(keys) < 3: // register
				name := choose(r, names)
				id := fmt.Sprintf("%s-%d", name, r.Intn(4))
				node := fmt.Sprintf("node%d", r.Intn(3))
				switch r.Intn(7) {
				case 0: // two different instances whose node and id, written one after the other with a dot, read the same
					id = fmt.Sprintf("%s-%d", name, r.Intn(2))
					node, id = "node1", "x."+id
				case 1:
					id = fmt.Sprintf("%s-%d", name, r.Intn(2))
					node = "node1.x"
				}
				sv := &c01Svc{Node: node, ID: id, Name: name, Port: 8000 + r.Intn(50)}
				sv.Addr = choose(r, []string{"", "10.1.0.%d", "10.1.0.%d", "fd00::%d"})
				if sv.Addr != "" {
					sv.Addr = fmt.Sprintf(sv.Addr, 1+r.Intn(9))
				}
				for n := r.Intn(3); n > 0; n-- {
					rt := c01Tag{Host: strings.ToLower(choose(r, hosts)), Path: choose(r, paths)}
					if r.Intn(3) == 0 {
						rt.Opts = append(rt.Opts, choose(r, []string{"strip=/web", "prepend=/x", "host=dst", "tlsskipverify=true"}))
					}
					if r.Intn(5) == 0 {
						rt.Proto = choose(r, []string{"https", "grpc"})
					}
					if r.Intn(5) == 0 {
						rt.Weight = choose(r, []float64{0.1, 0.25, 0.5})
					}
					dup := false
					for _, o := range sv.RTags {
						dup = dup || (o.Host == rt.Host && o.Path == rt.Path)
					}
					if !dup {
						sv.RTags = append(sv.RTags, rt)
					}
				}
				sv.Other = subset(r, []string{"v1", "blue", "canary"}, 2)
				for n := 1 + r.Intn(3); n > 0; n-- {
					sv.Checks = append(sv.Checks, fakeconsul.Check{CheckID: fmt.Sprintf("chk-%s-%d", id, len(sv.Checks)), Status: choose(r, biased)})
				}
				m.svcs[node+"/"+id] = sv
				steps = append(steps, "register "+node+"/"+id)
			case k == 4 && len(keys) > 5: // deregister
				delete(m.svcs, choose(r, keys))
				steps = append(steps, "deregister")
			case k < 8: // flip a check
				sv := m.svcs[choose(r, keys)]
				if len(sv.Checks) > 0 {
					i := r.Intn(len(sv.Checks))
					sv.Checks[i].Status = choose(r, biased)
					steps = append(steps, fmt.Sprintf("check %s/%s -> %s", sv.Node, sv.ID, sv.Checks[i].Status))
				}
			case k == 8: // add / remove a check
				sv := m.svcs[choose(r, keys)]
				if len(sv.Checks) > 0 && r.Intn(2) == 0 {
					sv.Checks = sv.Checks[:len(sv.Checks)-1]
				} else {
					sv.Checks = append(sv.Checks, fakeconsul.Check{CheckID: fmt.Sprintf("chk-%s-x%d", sv.ID, r.Intn(1000)), Status: choose(r, c01Statuses)})
				}
				steps = append(steps, "add/remove check on "+sv.ID)
			case k == 9: // agent failure / recovery
				n := m.nodes[fmt.Sprintf("node%d", r.Intn(2))]
				n.Serf = choose(r, []string{"passing", "passing", "critical"})
				steps = append(steps, "serf "+n.Name+" -> "+n.Serf)
			case k == 10:
				n := m.nodes[fmt.Sprintf("node%d", r.Intn(3))]
				if n.Maintenance || r.Intn(3) == 0 {
					n.Maintenance = !n.Maintenance
				}
				steps = append(steps, fmt.Sprintf("node maintenance %s -> %v", n.Name, n.Maintenance))
			case k == 11:
				sv := m.svcs[choose(r, keys)]
				if sv.Maint || r.Intn(2) == 0 {
					sv.Maint = !sv.Maint
				}
				steps = append(steps, fmt.Sprintf("service maintenance %s -> %v", sv.ID, sv.Maint))
			default: // manual commands
				switch r.Intn(6) {
				case 5:
					// a typo gets into the override, or is repaired; with the typo in, edits of the other commands have no effect
					if m.broken == "" {
						m.broken = choose(r, []string{"route ad typo a.test/ http://10.9.9.9:80/", "route add incomplete", "route weight svc a.test/ weight heavy", "rout del web", "route add q a.test/ http://10.9.9.9:80/ tags \"unbalanced"})
					} else {
						m.broken = ""
					}
				case 0:
					m.manual = nil
				case 1:
					m.manual = append(m.manual, refmodel.Def{Cmd: "add", Service: "manual-" + choose(r, names), Src: choose(r, []string{"m.test/", "a.test/web", "/"}), Dst: fmt.Sprintf("http://10.9.0.%d:80/", 1+r.Intn(5)), Tags: subset(r, []string{"v1", "m"}, 1)})
				case 2:
					m.manual = append(m.manual, refmodel.Def{Cmd: "del", Service: choose(r, names)})
				case 3:
					m.manual = append(m.manual, refmodel.Def{Cmd: "del", Service: choose(r, names), Src: choose(r, hosts[1:3]) + choose(r, paths)})
				case 4:
					// a weight command must match a target, else fabio (rightly) rejects the whole configuration
					d := refmodel.Def{Cmd: "weight", Service: choose(r, names), Src: strings.ToLower(choose(r, hosts)) + choose(r, paths), Weight: choose(r, []float64{0.1, 0.5}), Tags: subset(r, []string{"v1", "blue"}, 1)}
					// the override may match now and stop matching when its instances become unhealthy, or match nothing at
					// all: it then has nothing to do, and the rest of the table must keep following the registry
					if (m.expected(cf.Status, strict).WouldMatchWeight(d) || r.Intn(3) == 0) && len(m.manual) < 6 {
						m.manual = append(m.manual, d)
					}
				}
				// drop weight commands that no longer match after other changes (kept simple: re-validate below)
				steps = append(steps, "manual commands")
			}
		}
		// which instances are healthy by the registry before and after this step (for the no-resurrection check)
		healthyNow := m.healthyKeys(cf.Status, strict)
		pushTime := time.Now()
		for _, e := range events {
			if e.healedBefore.IsZero() && healthyNow[e.dst] {
				e.healedBefore = pushTime // healed by the step pushed now: later sightings are legitimate
			}
		}
		// (only when the step leaves the manual commands alone: a KV change travels through its own watcher and may
		// legitimately be applied, together with the old service state, before the health change is)
		if b%8 == 5 && b%25 != 24 && manualText() == rg.manual {
			// an update that changes nothing (Consul wakes the watcher although the passing set is the same) directly
			// followed by this step's change, and then nothing: no tick of the barrier helps the table along, it must
			// reach the registry's state on its own
			// no spontaneous wake-ups meanwhile: the fake agent's blocking queries normally time out after 2s (which
			// makes fabio rebuild its configuration), a real agent's after 5 minutes or more
			rg.agent.SetDefaultWait(60 * time.Second)
			quiet := rg.agent.Update(func(map[string]*fakeconsul.Node, map[string]*fakeconsul.Instance) {})
			if !rg.agent.WaitHealthQuery(quiet, barrierWatchdog) {
				c.R.Inconcl("config %d step %d: health watcher did not come back", ci, b)
				break
			}
			time.Sleep(20 * time.Millisecond) // let the unchanged configuration travel through the update loop
			// Nothing but this step changes the registry now, so every table that differs from the active one and shows
			// up after the push was installed after fabio observed the new state: it must not contain an instance
			// the step made unhealthy (checked against the poller's observations at the end).
			if preRaw, err := rg.rawRoutes(); err == nil {
				tPush := time.Now()
				for k := range healthyPrev {
					if !healthyNow[k] {
						events = append(events, &unhealthyEvent{dst: k, after: tPush, notRaw: preRaw})
						c.R.Count("quiet_update_removals", 1)
					}
				}
			}
			push()
			if !rg.agent.WaitHealthQuery(pushedIdx, barrierWatchdog) {
				c.R.Inconcl("config %d step %d: health watcher did not come back", ci, b)
				break
			}
			want := m.expected(cf.Status, strict)
			dl := time.Now().Add(10 * time.Second)
			var last string
			converged := true
			for {
				got, err := rg.routes()
				if err == nil {
					if last = c01Compare(want, got); last == "" {
						break
					}
				}
				if time.Now().After(dl) {
					converged = false
					break
				}
				time.Sleep(50 * time.Millisecond)
			}
			if !converged {
				c.R.Violate("c01:table-does-not-converge-after-quiet-update", fmt.Sprintf("config checksRequired=%s: fabio fetched the registry's new state (steps %v) right after an update that changed nothing; 10s later, registry quiescent and no blocking query timing out, the table still differs:\n%s", cf.Required, steps, last), map[string]any{"steps": steps})
				return
			}
			rg.agent.SetDefaultWait(2 * time.Second)
			c.R.Count("quiet_update_convergences", 1)
		}
		if b%25 == 24 {
			// a transient catalog failure while fabio builds the configuration for the new state, followed by
			// quiescence: the table must still converge (bounded: the fake agent's blocking queries return after 2s)
			// (no blocking query times out meanwhile: a real agent's would after 5 minutes or more, so nothing but fabio's
			// own retry can repair a configuration built from a failed lookup)
			rg.agent.SetDefaultWait(60 * time.Second)
			if q := rg.agent.Update(func(map[string]*fakeconsul.Node, map[string]*fakeconsul.Instance) {}); !rg.agent.WaitHealthQuery(q, barrierWatchdog) {
				c.R.Inconcl("config %d step %d: health watcher did not come back", ci, b)
				break
			}
			rg.agent.FailNextCatalog(1 + r.Intn(2))
			push()
			pushManual()
			want := m.expected(cf.Status, strict)
			dl := time.Now().Add(12 * time.Second)
			var last string
			for {
				got, err := rg.routes()
				if err == nil {
					if last = c01Compare(want, got); last == "" {
						break
					}
				}
				if time.Now().After(dl) {
					c.R.Violate("c01:table-does-not-converge-after-catalog-failure", fmt.Sprintf("config checksRequired=%s: 12s after a transient catalog failure (registry quiescent, no blocking query timing out) the table still differs:\n%s", cf.Required, last), map[string]any{"steps": steps})
					return
				}
				time.Sleep(100 * time.Millisecond)
			}
			rg.agent.FailNextCatalog(0) // failures the service monitor did not run into must not leak into the next step
			rg.agent.SetDefaultWait(2 * time.Second)
			c.R.Count("catalog_failure_recoveries", 1)
		}
		push()
		pushManual()
		if err := rg.barrier(); err != nil {
			c.R.Inconcl("config %d barrier %d: %v", ci, b, err)
			break
		}
		now := time.Now()
		want := m.expected(cf.Status, strict)
		got, err := rg.routes()
		if err != nil {
			c.R.Inconcl("config %d: reading /api/routes: %v", ci, err)
			break
		}
		c.R.Eval(1)
		wtext := flatStr(want.Flatten())
		if wtext != lastText {
			c.R.Nontrivial(wtext)
		}
		if d := c01Compare(want, got); d != "" {
			c.R.Violate("c01:table-differs-from-registry", fmt.Sprintf("config checksRequired=%s status=%v, after steps %v:\n%s", cf.Required, cf.Status, steps, d), map[string]any{"config": cf, "steps": steps})
			break
		}
		// instances healthy at the previous barrier and unhealthy now: fabio has observed that state (barrier passed),
		// so they must stay away from every later table until healed
		for k := range healthyPrev {
			if !healthyNow[k] {
				events = append(events, &unhealthyEvent{dst: k, after: now})
			}
		}
		healthyPrev = healthyNow
		lastText = wtext
		if c.R.WantSample() && len(steps) > 1 {
			c.R.Sample(map[string]any{"config": cf, "steps": steps, "table_after_barrier": wtext})
		}
	}
	stop.Store(true)
	pollWG.Wait()
	// no resurrection: between 'observed unhealthy' and 'healed', no installed table may contain the instance
	obsMu.Lock()
	defer obsMu.Unlock()
	c.R.Count("distinct_tables_observed", int64(len(seen)))
	for _, e := range events {
		for _, o := range seen {
			if !o.t.After(e.after) {
				continue
			}
			if !e.healedBefore.IsZero() && !o.t.Before(e.healedBefore) {
				continue
			}
			if e.notRaw != "" && o.raw == e.notRaw {
				continue
			}
			if e.notRaw != "" && os.Getenv("VERIF_DEBUG") != "" {
				fmt.Fprintf(os.Stderr, "DEBUG quiet event %q: table at +%s has %d bytes, contains dst: %v\n", e.dst, o.t.Sub(e.after), len(o.raw), strings.Contains(o.raw, strings.SplitN(e.dst, " ", 2)[1]))
			}
			p := strings.SplitN(e.dst, " ", 2)
			for _, ln := range strings.Split(o.raw, "\n") {
				f := strings.Fields(ln)
				if len(f) >= 5 && f[2] == p[0] && f[4] == p[1] {
					if e.notRaw != "" {
						c.R.Violate("c01:unhealthy-instance-in-new-table", fmt.Sprintf("%s became unhealthy in a quiescent registry (the only change, pushed right after an update that changed nothing); a table different from the previously active one, fetched %s after the push, still contains it:\n%s", e.dst, o.t.Sub(e.after), ln), nil)
						return
					}
					c.R.Violate("c01:unhealthy-instance-resurrected", fmt.Sprintf("%s was observed unhealthy (table without it installed and confirmed by a barrier) but a later table contains it again before it was healed (seen %s after the barrier):\n%s", e.dst, o.t.Sub(e.after), ln), nil)
					return
				}
			}
		}
	}
}

// lastFlat extracts "service dst" keys from the textual projection used for comparison.
func lastFlat(text string) []string {
	var out []string
	for _, part := range strings.Split(text, "] ") {
		f := strings.Fields(strings.TrimPrefix(part, "["))
		if len(f) >= 3 {
			out = append(out, f[1]+" "+f[2])
		}
	}
	return out
}

var (
	portMu   sync.Mutex
	portSeen = map[int]bool{}
)

// freePort returns a free loopback port that this process has not handed out before.
func freePort() int {
	portMu.Lock()
	defer portMu.Unlock()
	for i := 0; i < 100; i++ {
		l, err := net.Listen("tcp", "127.0.0.1:0")
		if err != nil {
			panic(err)
		}
		p := l.Addr().(*net.TCPAddr).Port
		l.Close()
		if !portSeen[p] {
			portSeen[p] = true
			return p
		}
	}
	panic("no free port")
}
