package main

import (
	"crypto/tls"
	"encoding/json"
	"fmt"
	"io"
	"net"
	"net/http"
	"path/filepath"
	"sort"
	"strings"
	"sync/atomic"
	"time"

	"verif/harness/internal/fabioproc"
	"verif/harness/internal/fakeconsul"
)

// rig = fake Consul agent + the real fabio binary configured to use it.
type rig struct {
	c      *ctx
	name   string
	agent  *fakeconsul.Agent
	proc   *fabioproc.Proc
	tick   int
	manual string
	closed bool
	// expectExit is set by monitors that make fabio exit themselves (shutdown)
	expectExit bool
}

var rigSeq atomic.Int64

const barrierWatchdog = 60 * time.Second

func newRig(c *ctx, name string, args []string) (*rig, error) {
	return newRigWith(c, name, args, "")
}

// newRigWith starts fabio with initManual already in the Consul KV store, so that the routes are part of the
// very first routing table fabio builds during start-up.
func newRigWith(c *ctx, name string, args []string, initManual string) (*rig, error) {
	if c.Fabio == "" {
		return nil, fmt.Errorf("no fabio binary given (-fabio)")
	}
	a, err := fakeconsul.New()
	if err != nil {
		return nil, err
	}
	a.Update(func(n map[string]*fakeconsul.Node, i map[string]*fakeconsul.Instance) {})
	a.PutKV("fabio/config/zz-tick", "# tick 0")
	if initManual != "" {
		a.PutKV("fabio/config/manual", initManual)
		// the manual configuration shall be part of the very first table: let the KV watcher report first
		a.DelayFirstHealth(1500 * time.Millisecond)
	}
	full := append([]string{"-registry.backend", "consul", "-registry.consul.addr", a.Addr()}, args...)
	logPath := filepath.Join(c.Dir, fmt.Sprintf("fabio-%s-%d.log", name, rigSeq.Add(1)))
	// arguments of the form ENV:K=V are environment variables of the child
	var env []string
	kept := full[:0:0]
	for _, a := range full {
		if strings.HasPrefix(a, "ENV:") {
			env = append(env, strings.TrimPrefix(a, "ENV:"))
		} else {
			kept = append(kept, a)
		}
	}
	full = kept
	p, err := fabioproc.Start(c.Fabio, logPath, full, env)
	if err != nil {
		a.Close()
		return nil, err
	}
	r := &rig{c: c, name: name, agent: a, proc: p, manual: initManual}
	if err := p.WaitReady(30 * time.Second); err != nil {
		r.close()
		return nil, err
	}
	return r, nil
}

// barrier returns when every registry/KV change made before the call has been
// turned into the active routing table (or rejected). Purely logical, see DESIGN 3.2.
func (r *rig) barrier() error {
	hidx := r.agent.Update(func(map[string]*fakeconsul.Node, map[string]*fakeconsul.Instance) {}) // a no-op bump makes the health index unique to this barrier
	if !r.agent.WaitHealthQuery(hidx, barrierWatchdog) {
		return fmt.Errorf("watchdog: health watcher did not come back with index %d (%s)", hidx, r.agent)
	}
	// two ticks: the first query with the tick index proves the loop received the tick, i.e. finished
	// everything before it; the second proves the first tick itself has been processed
	for i := 0; i < 2; i++ {
		r.tick++
		k := r.agent.PutKV("fabio/config/zz-tick", fmt.Sprintf("# tick %d", r.tick))
		if !r.agent.WaitKVQuery("fabio/config", k, barrierWatchdog) {
			return fmt.Errorf("watchdog: kv watcher did not come back with index %d (%s)", k, r.agent)
		}
	}
	if !r.proc.Alive() {
		return fmt.Errorf("fabio exited: %v", r.proc.ExitErr)
	}
	return nil
}

func (r *rig) setManual(text string) {
	r.manual = text
	if text == "" {
		r.agent.DeleteKV("fabio/config/manual")
	} else {
		r.agent.PutKV("fabio/config/manual", text)
	}
}

type apiRoute struct {
	Service string   `json:"service"`
	Host    string   `json:"host"`
	Path    string   `json:"path"`
	Dst     string   `json:"dst"`
	Opts    string   `json:"opts"`
	Weight  float64  `json:"weight"`
	Tags    []string `json:"tags"`
}

func (r *rig) get(path string) (string, error) {
	resp, err := http.Get("http://" + r.proc.Admin + path)
	if err != nil {
		return "", err
	}
	defer resp.Body.Close()
	b, err := io.ReadAll(resp.Body)
	return string(b), err
}

func (r *rig) routes() ([]apiRoute, error) {
	s, err := r.get("/api/routes")
	if err != nil {
		return nil, err
	}
	var out []apiRoute
	if strings.TrimSpace(s) == "null" || strings.TrimSpace(s) == "" {
		return nil, nil
	}
	if err := json.Unmarshal([]byte(s), &out); err != nil {
		return nil, fmt.Errorf("bad /api/routes answer: %v: %.200s", err, s)
	}
	return out, nil
}

func (r *rig) rawRoutes() (string, error) { return r.get("/api/routes?raw") }

// close stops fabio and reports crashes and race reports found in its log.
func (r *rig) close() {
	if r.closed {
		return
	}
	r.closed = true
	died := !r.proc.Alive() && !r.expectExit
	r.proc.Stop()
	r.agent.Close()
	for _, p := range r.proc.ScanLog() {
		r.c.R.Violate(fmt.Sprintf("fabio-%s:%s", p.Kind, fabioproc.FirstFabioFrame(p.Text)), fmt.Sprintf("fabio (%s rig) log shows a %s:\n%s", r.name, p.Kind, p.Text), nil)
	}
	if died && strings.Contains(r.proc.LogTail(6000), "address already in use") {
		// another process took a port between probing and binding: an environment problem, not fabio's
		r.c.R.Inconcl("fabio (%s rig) could not bind a listener: address already in use", r.name)
	} else if died {
		r.c.R.Violate("fabio-exited-unexpectedly", fmt.Sprintf("fabio (%s rig) exited by itself: %v\n%s", r.name, r.proc.ExitErr, r.proc.LogTail(3000)), nil)
	}
}

func optsMap(s string) map[string]string {
	m := map[string]string{}
	for _, f := range strings.Fields(s) {
		p := strings.SplitN(f, "=", 2)
		if len(p) == 1 {
			m[p[0]] = ""
		} else {
			m[p[0]] = p[1]
		}
	}
	return m
}

func sortedKeys[V any](m map[string]V) []string {
	var ks []string
	for k := range m {
		ks = append(ks, k)
	}
	sort.Strings(ks)
	return ks
}

// tlsStartBound: how long a TLS listener may take to present its first certificate after start-up.
const tlsStartBound = 30 * time.Second

// waitTLSServing returns once a TLS handshake with each of addrs has been presented a certificate. A TLS listener of
// fabio accepts connections before the first, asynchronous load of its certificate source is installed (cert.TLSConfig
// starts the watcher and returns, every listener has a store of its own); until then every handshake fails with
// "internal error". That window belongs to start-up, not to what the monitors behind this rig observe (C11's wire part
// observes it itself), so they wait it out: the handshake carries no request and is closed at once.
func waitTLSServing(sni string, addrs ...string) error {
	for _, a := range addrs {
		for t0 := time.Now(); ; time.Sleep(25 * time.Millisecond) {
			conn, err := tls.DialWithDialer(&net.Dialer{Timeout: 5 * time.Second}, "tcp", a, &tls.Config{ServerName: sni, InsecureSkipVerify: true, NextProtos: []string{"h2", "http/1.1"}})
			if err == nil {
				conn.Close()
				break
			}
			if time.Since(t0) > tlsStartBound {
				return fmt.Errorf("watchdog: TLS listener %s presented no certificate within %s of start-up: %v", a, tlsStartBound, err)
			}
		}
	}
	return nil
}
