package main

import (
	"encoding/json"
	"fmt"
	"io"
	"math/rand"
	"net"
	"net/http"
	"path/filepath"
	"strings"
	"sync"
	"sync/atomic"
	"time"

	"verif/harness/internal/fabioproc"
	"verif/harness/internal/fakeconsul"
	"verif/harness/internal/refmodel"
)

func init() { register("c02-updates", "C02", c02Updates) }

// invalid manual configurations, by construction
func c02Invalid(r *rand.Rand, i int) (string, string) {
	pad := func(n int) string {
		var b strings.Builder
		for k := 0; b.Len() < n; k++ {
			fmt.Fprintf(&b, "route add pad%d pad%d.test/ http://10.8.%d.%d:80/\n", k, k, k/250, k%250)
		}
		return b.String()
	}
	switch r.Intn(9) {
	case 0:
		return "unknown command", "route frobnicate svc a.test/ http://1.2.3.4:80/"
	case 1:
		return "missing argument", "route add svc a.test/"
	case 2:
		return "non-numeric weight", "route add svc a.test/ http://1.2.3.4:80/ weight heavy"
	case 3:
		return "unbalanced quotes", "route add svc a.test/ http://1.2.3.4:80/ tags \"a,b"
	case 4:
		return "weight for a route without a path", "route weight nosuchservice weight 0.5"
	case 5:
		return "garbage", "\x00\x01 not a route \xff"
	case 6:
		// the error comes early in a configuration of more than 4 KiB (a scanner reads in 4 KiB chunks)
		return "error early in a >4KiB text", "route add broken\n" + pad(6000+r.Intn(8000))
	case 7:
		return "error in the middle of a large text", pad(5000) + "route bogus\n" + pad(9000)
	default:
		return "line longer than 64KiB", "route add svc long.test/ http://1.2.3.4:80/ tags \"" + strings.Repeat("t,", 40000) + "x\"\nroute add after long.test/x http://1.2.3.5:80/"
	}
}

func c02Updates(c *ctx) {
	c.R.Rule = "update-loop histories through the real binary: (1) Consul backend, alternating valid and invalid-by-construction manual configurations (unknown command, missing argument, bad weight, unbalanced quotes, weight without source, garbage, >4KiB and >64KiB texts) interleaved with service changes; after every barrier the active table must equal the model, which changes only on valid input (a service change while the manual configuration is invalid is valid input: it is applied together with the last valid manual configuration), while 8 clients request a route present in every valid generation; (2) custom backend fed valid arrays, invalid JSON, null, bad definitions and HTTP 500. evaluations = update steps checked; non-trivial = step that follows an invalid update (the next valid one must still be applied) or an invalid step itself; distinct by step text"
	var wg sync.WaitGroup
	wg.Add(2)
	go func() { defer wg.Done(); c02Consul(c) }()
	go func() { defer wg.Done(); c02Custom(c) }()
	wg.Wait()
}

func c02Consul(c *ctx) {
	// upstream that is routed in every valid generation
	var hits atomic.Int64
	up := &http.Server{Handler: http.HandlerFunc(func(w http.ResponseWriter, r *http.Request) { hits.Add(1); io.WriteString(w, "ok") })}
	ln, err := net.Listen("tcp", "127.0.0.1:0")
	if err != nil {
		c.R.Inconcl("listen: %v", err)
		return
	}
	go up.Serve(ln)
	defer up.Close()
	upPort := ln.Addr().(*net.TCPAddr).Port
	proxyAddr := fmt.Sprintf("127.0.0.1:%d", freePort())
	// a tcp-dynamic listener: ports named by tcp routes are opened as the table asks for them
	dynPort := freePort()
	rg, err := newRig(c, "c02b", []string{"-proxy.addr", fmt.Sprintf("%s,127.0.0.1:%d;proto=tcp-dynamic;refresh=200ms", proxyAddr, freePort())})
	if err != nil {
		c.R.Inconcl("cannot start fabio: %v", err)
		return
	}
	defer rg.close()
	r := c.rng(2020)
	svcs := map[string]*fakeconsul.Instance{}
	svcs["n0/stable"] = &fakeconsul.Instance{Node: "n0", ID: "stable", Name: "stable", Address: "127.0.0.1", Port: upPort, Tags: []string{"urlprefix-stable.test/"}, Checks: []fakeconsul.Check{{CheckID: "c", Status: "passing"}}}
	pushSvcs := func() {
		rg.agent.Update(func(nodes map[string]*fakeconsul.Node, insts map[string]*fakeconsul.Instance) {
			nodes["n0"] = &fakeconsul.Node{Name: "n0", Address: "127.0.0.1", Serf: "passing"}
			for k := range insts {
				delete(insts, k)
			}
			for k, v := range svcs {
				cp := *v
				insts[k] = &cp
			}
		})
	}
	svcTable := func() []refmodel.Def {
		var out []refmodel.Def
		for _, k := range sortedKeys(svcs) {
			s := svcs[k]
			for _, t := range s.Tags {
				src := strings.TrimPrefix(t, "urlprefix-")
				out = append(out, refmodel.Def{Cmd: "add", Service: s.Name, Src: src, Dst: fmt.Sprintf("http://%s:%d/", s.Address, s.Port)})
			}
		}
		return out
	}
	build := func(sv []refmodel.Def, man []refmodel.Def) refmodel.Table {
		t := refmodel.Table{}
		for _, d := range sv {
			t.Apply(d)
		}
		for _, d := range man {
			t.Apply(d)
		}
		t.Normalize()
		return t
	}
	pushSvcs()
	if err := rg.barrier(); err != nil {
		c.R.Inconcl("first barrier: %v", err)
		return
	}
	if !fabioproc.WaitListening(proxyAddr, 20*time.Second) {
		c.R.Inconcl("proxy listener did not come up")
		return
	}
	// clients
	var stop atomic.Bool
	var cwg sync.WaitGroup
	var reqs, bad atomic.Int64
	var firstBad atomic.Value
	for g := 0; g < 8; g++ {
		cwg.Add(1)
		go func() {
			defer cwg.Done()
			cl := &http.Client{Timeout: 10 * time.Second}
			for !stop.Load() {
				req, _ := http.NewRequest("GET", "http://"+proxyAddr+"/x", nil)
				req.Host = "stable.test"
				resp, err := cl.Do(req)
				reqs.Add(1)
				if err != nil {
					if bad.Add(1) == 1 {
						firstBad.Store("request failed: " + err.Error())
					}
					continue
				}
				b, _ := io.ReadAll(resp.Body)
				resp.Body.Close()
				if resp.StatusCode != 200 || string(b) != "ok" {
					if bad.Add(1) == 1 {
						firstBad.Store(fmt.Sprintf("status %d body %.40q", resp.StatusCode, b))
					}
				}
				time.Sleep(time.Millisecond)
			}
		}()
	}
	defer func() {
		stop.Store(true)
		cwg.Wait()
		c.R.Count("client_requests_during_updates", reqs.Load())
		if bad.Load() > 0 {
			c.R.Violate("c02b:requests-failed-during-updates", fmt.Sprintf("%d of %d requests to a route that exists in every valid generation failed; first: %v", bad.Load(), reqs.Load(), firstBad.Load()), nil)
		}
	}()
	n := c.scale(c.pick(60, 500))
	var manValid []refmodel.Def // manual commands of the last valid manual config
	activeSv, activeMan := svcTable(), []refmodel.Def(nil)
	manIsValid := true
	curMan := []refmodel.Def(nil)
	prevInvalid := false
	for i := 0; i < n; i++ {
		var desc string
		switch k := r.Intn(10); {
		case k < 4: // a valid manual configuration
			curMan = nil
			for m := 1 + r.Intn(3); m > 0; m-- {
				curMan = append(curMan, refmodel.Def{Cmd: "add", Service: fmt.Sprintf("man%d", r.Intn(3)), Src: fmt.Sprintf("m%d.test/", r.Intn(3)), Dst: fmt.Sprintf("http://10.7.0.%d:80/", 1+r.Intn(9)), Tags: []string{fmt.Sprintf("step=%d", i)}})
			}
			// the other two commands: a del that takes one of the services out again, a weight for a route that exists
			if r.Intn(2) == 0 {
				curMan = append(curMan, refmodel.Def{Cmd: "del", Service: fmt.Sprintf("man%d", r.Intn(3))})
			}
			if r.Intn(2) == 0 {
				curMan = append(curMan, refmodel.Def{Cmd: "weight", Service: curMan[0].Service, Src: curMan[0].Src, Weight: 0.5})
			}
			var lines []string
			for _, d := range curMan {
				lines = append(lines, d.Text())
			}
			if r.Intn(2) == 0 {
				// tcp routes for the dynamic listener, one port in two spellings (both are what the table accepts)
				for k, sp := range []string{fmt.Sprintf(":%d", dynPort), fmt.Sprintf(":0%d", dynPort)} {
					d := refmodel.Def{Cmd: "add", Service: fmt.Sprintf("dyn%d", k), Src: sp, Dst: fmt.Sprintf("tcp://127.0.0.1:%d", upPort)}
					curMan = append(curMan, d)
					lines = append(lines, d.Text())
				}
			}
			if r.Intn(4) == 0 { // a large but valid text
				for k := 0; k < 200; k++ {
					d := refmodel.Def{Cmd: "add", Service: fmt.Sprintf("bulk%d", k), Src: fmt.Sprintf("bulk%d.test/", k), Dst: fmt.Sprintf("http://10.6.%d.%d:80/", k/200, k%200)}
					curMan = append(curMan, d)
					lines = append(lines, d.Text())
				}
			}
			rg.setManual(strings.Join(lines, "\n"))
			manIsValid, manValid = true, curMan
			desc = fmt.Sprintf("valid manual config (%d commands)", len(curMan))
			activeSv, activeMan = svcTable(), manValid
		case k < 8: // an invalid manual configuration
			why, text := c02Invalid(r, i)
			rg.setManual(text)
			manIsValid = false
			desc = "invalid manual config: " + why
		default: // a service change
			id := fmt.Sprintf("svc%d", r.Intn(4))
			if _, ok := svcs["n0/"+id]; ok && r.Intn(2) == 0 {
				delete(svcs, "n0/"+id)
			} else {
				svcs["n0/"+id] = &fakeconsul.Instance{Node: "n0", ID: id, Name: id, Address: "10.5.0.1", Port: 9000 + r.Intn(9), Tags: []string{fmt.Sprintf("urlprefix-%s.test/", id)}, Checks: []fakeconsul.Check{{CheckID: "c-" + id, Status: "passing"}}}
			}
			pushSvcs()
			desc = "service change " + id
			// a valid service configuration is applied whatever the state of the manual one: while that is invalid the
			// last valid manual configuration stays in force
			activeSv, activeMan = svcTable(), manValid
		}
		if err := rg.barrier(); err != nil {
			c.R.Inconcl("barrier %d: %v", i, err)
			return
		}
		got, err := rg.routes()
		if err != nil {
			c.R.Inconcl("routes: %v", err)
			return
		}
		c.R.Eval(1)
		if prevInvalid || !manIsValid {
			c.R.Nontrivial(fmt.Sprintf("%d %s", i, desc))
		}
		want := build(activeSv, activeMan)
		if d := c01Compare(want, got); d != "" {
			sig := "c02b:active-table-differs"
			if prevInvalid && manIsValid {
				sig = "c02b:valid-update-after-invalid-not-applied"
			} else if !manIsValid && strings.HasPrefix(desc, "service change") {
				sig = "c02b:valid-service-update-not-applied-while-manual-config-invalid"
			} else if !manIsValid {
				sig = "c02b:invalid-update-changed-table"
			}
			c.R.Violate(sig, fmt.Sprintf("step %d (%s, previous step invalid=%v): %s", i, desc, prevInvalid, d), map[string]any{"step": i, "desc": desc})
			return
		}
		if c.R.WantSample() && !manIsValid {
			c.R.Sample(map[string]any{"step": desc, "active_table_targets": len(got)})
		}
		prevInvalid = !manIsValid
		if !rg.proc.Alive() {
			return
		}
	}
	c02DynMixture(c, rg)
}

// c02DynMixture: one routing decision, one table. The table flips between T1 = {:P -> old} and T2 = {127.0.0.1:P ->
// specific, :P -> generic} while clients connect to 127.0.0.1:P on the tcp-dynamic listener. T1 answers "old", T2
// answers "specific"; "generic" is what comes out when the miss for the address is taken from T1 and the fallback for
// the port from T2.
func c02DynMixture(c *ctx, rg *rig) {
	names := []string{"old", "specific", "generic"}
	var addrs []string
	for _, nm := range names {
		ln, err := net.Listen("tcp", "127.0.0.1:0")
		if err != nil {
			c.R.Inconcl("listen: %v", err)
			return
		}
		defer ln.Close()
		addrs = append(addrs, ln.Addr().String())
		go func(nm string) {
			for {
				cn, err := ln.Accept()
				if err != nil {
					return
				}
				cn.Write([]byte(nm + "\n"))
				cn.Close()
			}
		}(nm)
	}
	port := freePort()
	t1 := fmt.Sprintf("route add old :%d tcp://%s", port, addrs[0])
	t2 := fmt.Sprintf("route add specific 127.0.0.1:%d tcp://%s\nroute add generic :%d tcp://%s", port, addrs[1], port, addrs[2])
	rg.setManual(t1)
	if err := rg.barrier(); err != nil {
		c.R.Inconcl("barrier: %v", err)
		return
	}
	target := fmt.Sprintf("127.0.0.1:%d", port)
	if !fabioproc.WaitListening(target, 10*time.Second) {
		c.R.Inconcl("the tcp-dynamic listener for %s did not come up", target)
		return
	}
	var stop atomic.Bool
	var wg sync.WaitGroup
	wg.Add(1)
	go func() {
		defer wg.Done()
		for i := 0; !stop.Load(); i++ {
			if i%2 == 0 {
				rg.setManual(t2)
			} else {
				rg.setManual(t1)
			}
			c.R.Count("dyn_mixture_table_flips", 1)
			time.Sleep(3 * time.Millisecond)
		}
	}()
	var tally [4]atomic.Int64
	total := c.scale(c.pick(6000, 60000))
	var next atomic.Int64
	for g := 0; g < 8; g++ {
		wg.Add(1)
		go func() {
			defer wg.Done()
			for int(next.Add(1)) <= total {
				cn, err := net.DialTimeout("tcp", target, 5*time.Second)
				if err != nil {
					tally[3].Add(1)
					continue
				}
				cn.SetDeadline(time.Now().Add(5 * time.Second))
				b, _ := io.ReadAll(cn)
				cn.Close()
				c.R.Eval(1)
				switch strings.TrimSpace(string(b)) {
				case "old":
					tally[0].Add(1)
				case "specific":
					tally[1].Add(1)
				case "generic":
					tally[2].Add(1)
				default:
					tally[3].Add(1)
				}
			}
			stop.Store(true)
		}()
	}
	wg.Wait()
	c.R.SetCounter("dyn_connections_answered_by_old_table", tally[0].Load())
	c.R.SetCounter("dyn_connections_answered_by_new_table", tally[1].Load())
	c.R.SetCounter("dyn_connections_without_answer", tally[3].Load())
	if tally[0].Load() > 0 && tally[1].Load() > 0 {
		c.R.Nontrivial("tcp-dynamic connections answered by both table generations")
	}
	if n := tally[2].Load(); n > 0 {
		c.R.Violate("c02b:tcp-dynamic-answer-mixed-from-two-tables", fmt.Sprintf("%d of %d connections to %s were tunnelled to \"generic\": the table {:P -> old} has no route for the address, the table {127.0.0.1:P -> specific, :P -> generic} answers \"specific\"; \"generic\" takes the miss from the first and the fallback from the second (old %d, specific %d)", n, total, target, tally[0].Load(), tally[1].Load()), nil)
	}
}

// ---------- custom backend ----------

func c02Custom(c *ctx) {
	var mu sync.Mutex
	body, status := "[]", 200
	var served atomic.Int64
	srv := &http.Server{Handler: http.HandlerFunc(func(w http.ResponseWriter, r *http.Request) {
		mu.Lock()
		b, s := body, status
		mu.Unlock()
		w.WriteHeader(s)
		io.WriteString(w, b)
		served.Add(1)
	})}
	ln, err := net.Listen("tcp", "127.0.0.1:0")
	if err != nil {
		c.R.Inconcl("listen: %v", err)
		return
	}
	go srv.Serve(ln)
	defer srv.Close()
	logPath := filepath.Join(c.Dir, "fabio-custom.log")
	p, err := fabioproc.Start(c.Fabio, logPath, []string{"-registry.backend", "custom", "-registry.custom.host", ln.Addr().String(), "-registry.custom.scheme", "http",
		"-registry.custom.path", "routes", "-registry.custom.pollinterval", "20ms", "-registry.custom.timeout", "5s", "-proxy.addr", fmt.Sprintf("127.0.0.1:%d", freePort())}, nil)
	if err != nil {
		c.R.Inconcl("start fabio (custom): %v", err)
		return
	}
	defer func() {
		died := !p.Alive()
		p.Stop()
		for _, pr := range p.ScanLog() {
			c.R.Violate(fmt.Sprintf("fabio-%s:%s", pr.Kind, fabioproc.FirstFabioFrame(pr.Text)), "fabio (custom backend) log shows a "+pr.Kind+":\n"+pr.Text, nil)
		}
		if died {
			c.R.Violate("fabio-exited-unexpectedly:custom-backend", "fabio with the custom backend exited by itself:\n"+p.LogTail(3000), nil)
		}
	}()
	if err := p.WaitReady(30 * time.Second); err != nil {
		c.R.Inconcl("%v", err)
		return
	}
	// logical barrier: the backend loop is sequential, so two further requests imply the current body was processed
	barrier := func() bool {
		base := served.Load()
		dl := time.Now().Add(barrierWatchdog)
		for served.Load() < base+2 {
			if time.Now().After(dl) || !p.Alive() {
				return false
			}
			time.Sleep(2 * time.Millisecond)
		}
		return true
	}
	type def struct {
		Cmd     string            `json:"cmd"`
		Service string            `json:"service"`
		Src     string            `json:"src"`
		Dst     string            `json:"dst"`
		Weight  float64           `json:"weight,omitempty"`
		Tags    []string          `json:"tags,omitempty"`
		Opts    map[string]string `json:"opts,omitempty"`
	}
	r := c.rng(3030)
	var active []refmodel.Def
	n := c.scale(c.pick(60, 500))
	prevInvalid := false
	for i := 0; i < n; i++ {
		var desc string
		valid := false
		var defs []def
		var model []refmodel.Def
		switch k := r.Intn(10); {
		case k < 5:
			valid = true
			for m := r.Intn(5); m >= 0; m-- {
				d := def{Cmd: "route add", Service: fmt.Sprintf("c%d", r.Intn(3)), Src: fmt.Sprintf("c%d.test/", r.Intn(3)), Dst: fmt.Sprintf("http://10.4.0.%d:80/", 1+r.Intn(5))}
				if r.Intn(2) == 0 {
					d.Tags = []string{fmt.Sprintf("s%d", i)}
				}
				if r.Intn(3) == 0 {
					d.Weight = choose(r, []float64{0.25, 0.5})
				}
				if r.Intn(3) == 0 {
					d.Opts = map[string]string{"strip": "/x"}
				}
				defs = append(defs, d)
				model = append(model, refmodel.Def{Cmd: "add", Service: d.Service, Src: d.Src, Dst: d.Dst, Weight: d.Weight, Tags: d.Tags, Opts: d.Opts})
			}
			b, _ := json.Marshal(defs)
			mu.Lock()
			body, status = string(b), 200
			mu.Unlock()
			desc = fmt.Sprintf("valid array of %d definitions", len(defs))
		default:
			mu.Lock()
			switch r.Intn(6) {
			case 0:
				body, status, desc = "{not json", 200, "invalid JSON"
			case 1:
				// null is the JSON spelling of an absent list: an empty but valid routing table
				body, status, desc = "null", 200, "JSON null"
				valid, model = true, nil
			case 2:
				body, status, desc = `[{"cmd":"route add","service":"x","src":"","dst":"http://1.2.3.4/"}]`, 200, "definition with empty prefix"
			case 3:
				body, status, desc = "boom", 500, "HTTP 500"
			case 4:
				body, status, desc = `[{"cmd":"route explode","service":"x","src":"a/","dst":"http://1.2.3.4/"}]`, 200, "unknown command"
			case 5:
				body, status, desc = `{"cmd":"route add"}`, 200, "JSON object instead of array"
			}
			mu.Unlock()
		}
		if !barrier() {
			if !p.Alive() {
				c.R.Violate("c02b:custom-backend-input-killed-fabio", fmt.Sprintf("fabio died after the custom backend delivered: %s\n%s", desc, p.LogTail(2500)), map[string]any{"step": desc})
			} else {
				c.R.Inconcl("custom backend barrier watchdog at step %d (%s)", i, desc)
			}
			return
		}
		if valid {
			active = model
		}
		resp, err := http.Get("http://" + p.Admin + "/api/routes")
		if err != nil {
			c.R.Inconcl("routes: %v", err)
			return
		}
		var got []apiRoute
		b, _ := io.ReadAll(resp.Body)
		resp.Body.Close()
		json.Unmarshal(b, &got)
		c.R.Eval(1)
		if prevInvalid || !valid {
			c.R.Nontrivial(fmt.Sprintf("custom %d %s", i, desc))
		}
		t := refmodel.Table{}
		for _, d := range active {
			t.Apply(d)
		}
		t.Normalize()
		if d := c01Compare(t, got); d != "" {
			sig := "c02b:custom:active-table-differs"
			if !valid {
				sig = "c02b:custom:invalid-update-changed-table"
			} else if prevInvalid {
				sig = "c02b:custom:valid-update-after-invalid-not-applied"
			}
			c.R.Violate(sig, fmt.Sprintf("custom backend step %d (%s): %s", i, desc, d), map[string]any{"step": desc})
			return
		}
		prevInvalid = !valid
	}
}
