// vh is the monitor binary: one sub-command per property part.
//
//	vh <part> -seed N -tier quick|thorough -out report.json [-replay file] [-dir rundir]
package main

import (
	"flag"
	"fmt"
	"io"
	"log"
	"math/rand"
	"os"
	"runtime"
	"runtime/debug"
	"sort"
	"strings"

	"verif/harness/internal/rep"
)

type ctx struct {
	R      *rep.Report
	Seed   int64
	Tier   string
	Dir    string // scratch dir of this run
	Replay string
	Batch  int // >=0 when running as an isolated batch child
	Fabio  string
	Args   []string
	Scale  float64
	Out    string
}

func (c *ctx) thorough() bool { return c.Tier == "thorough" }

// pick returns q for the quick tier and t for the thorough tier.
func (c *ctx) pick(q, t int) int {
	if c.thorough() {
		return t
	}
	return q
}

func (c *ctx) rng(stream int64) *rand.Rand {
	return rand.New(rand.NewSource(c.Seed*1000003 + stream*7919 + 17))
}

type part struct {
	property string
	fn       func(*ctx)
}

var parts = map[string]part{}

func register(name, property string, fn func(*ctx)) { parts[name] = part{property, fn} }

func main() {
	if len(os.Args) < 2 {
		usage()
	}
	name := os.Args[1]
	p, ok := parts[name]
	if !ok {
		usage()
	}
	fs := flag.NewFlagSet(name, flag.ExitOnError)
	seed := fs.Int64("seed", 1, "PRNG seed")
	tier := fs.String("tier", "quick", "quick|thorough")
	out := fs.String("out", "", "report file")
	replay := fs.String("replay", "", "replay file")
	dir := fs.String("dir", "", "scratch directory")
	batch := fs.Int("batch", -1, "internal: batch index when run as isolated child")
	fabio := fs.String("fabio", "", "path of the fabio binary built from /repo")
	scale := fs.Float64("scale", 1, "workload scale (the driver runs the race build on a sample)")
	fs.Parse(os.Args[2:])
	if *dir == "" && name != "c15-usage" { // (the usage child ends in flag's os.Exit: a scratch directory would stay behind)
		d, err := os.MkdirTemp("/var/tmp", "vh-")
		if err != nil {
			panic(err)
		}
		*dir = d
		defer os.RemoveAll(d)
	}
	debug.SetTraceback("all")
	log.SetOutput(io.Discard) // fabio logs through the std logger; monitors that need the log install their own writer
	c := &ctx{R: rep.New(p.property, name, *seed, *tier), Seed: *seed, Tier: *tier, Dir: *dir,
		Replay: *replay, Batch: *batch, Fabio: *fabio, Args: fs.Args(), Scale: *scale, Out: *out}
	c.R.SetCounter("gomaxprocs", int64(runtime.GOMAXPROCS(0)))
	p.fn(c)
	if *out != "" {
		if err := c.R.Write(*out); err != nil {
			fmt.Fprintln(os.Stderr, "write report:", err)
			os.Exit(2)
		}
		if f := os.Getenv("VH_COMPLETE"); f != "" {
			os.WriteFile(f, []byte("done"), 0o644)
		}
	} else {
		c.R.Finish()
		fmt.Printf("part=%s evaluations=%d distinct=%d violations=%d inconclusive=%d\n", name, c.R.Evaluations, c.R.Distinct, c.R.NViolations, len(c.R.Inconclusive))
		for _, v := range c.R.Violations {
			fmt.Printf("  VIOL %s: %s\n", v.Sig, v.Detail)
		}
		for _, v := range c.R.Notes {
			fmt.Printf("  NOTE %s\n", v)
		}
		for _, v := range c.R.Inconclusive {
			fmt.Printf("  INCONCLUSIVE %s\n", v)
		}
		keys := []string{}
		for k := range c.R.Counters {
			keys = append(keys, k)
		}
		sort.Strings(keys)
		for _, k := range keys {
			fmt.Printf("  %s=%d\n", k, c.R.Counters[k])
		}
	}
}

func usage() {
	names := []string{}
	for n := range parts {
		names = append(names, n)
	}
	sort.Strings(names)
	fmt.Fprintln(os.Stderr, "usage: vh <part> [flags]; parts:", strings.Join(names, " "))
	os.Exit(2)
}

// scale applies the -scale factor (the driver runs the race-detector build of a
// sequential differential part on a sample of the volume the plain build covers).
func (c *ctx) scale(n int) int {
	f := c.Scale
	if s := os.Getenv("VERIF_SCALE"); s != "" { // developer knob, never set by registered checks
		var g float64
		fmt.Sscanf(s, "%g", &g)
		if g > 0 {
			f *= g
		}
	}
	if f > 0 && f != 1 {
		n = int(float64(n) * f)
		if n < 1 {
			n = 1
		}
	}
	return n
}
