package main

import (
	"bytes"
	"compress/gzip"
	"crypto/sha256"
	"fmt"
	"math/rand"
	"net"
	"net/textproto"
	"net/url"
	"os"
	"path/filepath"
	"sort"
	"strconv"
	"strings"
	"sync"
	"sync/atomic"
	"time"

	"verif/harness/internal/fabioproc"
	"verif/harness/internal/rawhttp"
)

func init() {
	register("c07-wire", "C07", func(c *ctx) { c07Wire(c, "c07") })
	register("c08-wire", "C08", func(c *ctx) { c07Wire(c, "c08") })
	register("c20-wire", "C20", func(c *ctx) { c07Wire(c, "c20") })
}

type c07Route struct {
	Host    string
	Strip   string
	Prepend string
	HostOpt string // "", "dst", or a name
	TQuery  string
}

type c07HdrCfg struct {
	Name      string
	ClientIP  string
	TLSHeader string
	TLSValue  string
	LocalIP   string
	STSMaxAge int
	STSSub    bool
	STSPre    bool
}

func (h c07HdrCfg) args() []string {
	var a []string
	if h.ClientIP != "" {
		a = append(a, "-proxy.header.clientip", h.ClientIP)
	}
	if h.TLSHeader != "" {
		a = append(a, "-proxy.header.tls", h.TLSHeader, "-proxy.header.tls.value", h.TLSValue)
	}
	if h.LocalIP != "" {
		a = append(a, "-proxy.localip", h.LocalIP)
	}
	if h.STSMaxAge > 0 {
		a = append(a, "-proxy.header.sts.maxage", strconv.Itoa(h.STSMaxAge), fmt.Sprintf("-proxy.header.sts.subdomains=%v", h.STSSub), fmt.Sprintf("-proxy.header.sts.preload=%v", h.STSPre))
	}
	return a
}

type c07Rig struct {
	rg              *rig
	up              *rawhttp.Upstream
	plain, tlsA, v6 string
	routes          []c07Route
	hc              c07HdrCfg
	logged          sync.Map // request id -> *c20Expect (c20-wire)
}

// c20Expect is what the access log must say about one proxied request.
type c20Expect struct {
	Status   int
	BodyLen  int
	Method   string
	Service  string
	T0, T1   time.Time // harness clock before sending / after the complete response
	Describe string
	Host     string // Host header the client sent
	URI      string // request target the client sent
	Scheme   string // of the client's connection; "" when the client itself sent X-Forwarded-Proto or Forwarded
}

const c20WireFormat = "ACCESSLOG|$header.X-Verif-Id|$response_status|$response_body_size|$request_method|$upstream_service|$time_rfc3339_ms|$time_unix_ms|$time_common|$request_host|$request_uri|$request_scheme|$request_url"

const c07NoRouteHTML = "<html><body>no route here</body></html>"

func newC07Rig(c *ctx, hc c07HdrCfg, extra []string) (*c07Rig, error) {
	up, err := rawhttp.NewUpstream("127.0.0.1:0")
	if err != nil {
		return nil, err
	}
	certDir := filepath.Join(c.Dir, "tlscert-"+hc.Name)
	os.MkdirAll(certDir, 0o755)
	crt := c11Make("x-cert.pem", "fabio.test", "*.test", "localhost")
	os.WriteFile(filepath.Join(certDir, "x-cert.pem"), crt.CertPEM, 0o644)
	os.WriteFile(filepath.Join(certDir, "x-key.pem"), crt.KeyPEM, 0o644)
	r := &c07Rig{up: up, hc: hc}
	r.plain = fmt.Sprintf("127.0.0.1:%d", freePort())
	r.tlsA = fmt.Sprintf("127.0.0.1:%d", freePort())
	r.v6 = fmt.Sprintf("[::1]:%d", freePort())
	args := []string{"-proxy.addr", fmt.Sprintf("%s,%s;cs=cs1,%s", r.plain, r.tlsA, r.v6), "-proxy.cs", "cs=cs1;type=path;cert=" + certDir,
		"-proxy.noroutestatus", "418", "-log.level", "WARN"}
	args = append(args, hc.args()...)
	args = append(args, extra...)
	rg, err := newRig(c, "http-"+hc.Name, args)
	if err != nil {
		up.Close()
		return nil, err
	}
	r.rg = rg
	var lines []string
	k := 0
	for _, strip := range []string{"", "/s", "/s/t"} {
		for _, pre := range []string{"", "/p", "/caf\u00e9"} { // the last one: plain text that has to be escaped in a request target
			for _, ho := range []string{"", "dst", "custom.example"} {
				for _, tq := range []string{"", "tq=1&tz=2"} {
					rt := c07Route{Host: fmt.Sprintf("r%d.test", k), Strip: strip, Prepend: pre, HostOpt: ho, TQuery: tq}
					r.routes = append(r.routes, rt)
					dst := "http://" + up.Addr() + "/"
					if tq != "" {
						dst += "?" + tq
					}
					var opts []string
					if strip != "" {
						opts = append(opts, "strip="+strip)
					}
					if pre != "" {
						opts = append(opts, "prepend="+pre)
					}
					if ho != "" {
						opts = append(opts, "host="+ho)
					}
					l := fmt.Sprintf("route add r%d %s/ %s", k, rt.Host, dst)
					if len(opts) > 0 {
						l += ` opts "` + strings.Join(opts, " ") + `"`
					}
					lines = append(lines, l)
					k++
				}
			}
		}
	}
	lines = append(lines, fmt.Sprintf("route add ws ws.test/ http://%s/", up.Addr()))
	lines = append(lines, fmt.Sprintf("route add v6 /v6literal/ http://%s/", up.Addr())) // host-less: reached with an IPv6 literal Host header
	rg.agent.PutKV("fabio/noroute.html", c07NoRouteHTML)
	// a neighbour of the page's key (an operator's backup copy): Consul lists it with the same prefix, it is not the page
	rg.agent.PutKV("fabio/noroute.html.bak", "<html>the page of last year</html>")
	rg.setManual(strings.Join(lines, "\n"))
	if err := rg.barrier(); err != nil {
		r.close()
		return nil, err
	}
	for _, a := range []string{r.plain, r.tlsA, r.v6} {
		if !fabioproc.WaitListening(a, 20*time.Second) {
			r.close()
			return nil, fmt.Errorf("listener %s did not come up", a)
		}
	}
	if err := waitTLSServing("r0.test", r.tlsA); err != nil {
		r.close()
		return nil, err
	}
	// the noroute page travels through its own watcher
	time.Sleep(300 * time.Millisecond)
	return r, nil
}

func (r *c07Rig) close() {
	if r.rg != nil {
		r.rg.close()
	}
	r.up.Close()
}

type c07Req struct {
	ID      string
	Route   int // index into routes, -1 = no route, -2 = websocket, -3 = IPv6 literal host
	Method  string
	RawPath string
	Query   string
	HostHdr string
	Headers []rawhttp.Header
	Body    []byte
	Chunked bool
	// Trailers: fields sent after the last chunk of a chunked body, announced in a Trailer header
	Trailers []rawhttp.Header
	ChunkSz  int
	Via      string // plain | tls | v6
	Local    string
	Upgrade  string
	Script   *rawhttp.Script
}

var c07Segs = []string{"a", "b", "%2F", "%20", "%25", "%C3%A9", "a;b", "x:y", "@", "a+b", "~", "a,b", "k=v", "a&b", "$", "x.y", "UP", "%2f", "s", "t"}

var c07Managed = map[string]bool{"x-forwarded-for": true, "x-forwarded-proto": true, "x-forwarded-port": true, "x-forwarded-host": true, "x-forwarded-prefix": true, "forwarded": true, "x-real-ip": true,
	"host": true, "content-length": true, "transfer-encoding": true, "connection": true, "keep-alive": true, "proxy-connection": true, "te": true, "trailer": true, "upgrade": true, "user-agent": true, "accept-encoding": true,
	"proxy-authenticate": true, "proxy-authorization": true, "x-verif-id": true}

func genC07(r *rand.Rand, rg *c07Rig, id string, thorough bool) *c07Req {
	q := &c07Req{ID: id, Route: r.Intn(len(rg.routes))}
	switch x := r.Intn(40); {
	case x == 0:
		q.Route = -1
	case x == 1:
		q.Route = -2
	case x == 2:
		q.Route = -3
	}
	q.Method = choose(r, []string{"GET", "GET", "GET", "HEAD", "POST", "POST", "PUT", "PATCH", "DELETE", "OPTIONS", "PURGE"})
	var p strings.Builder
	if q.Route >= 0 && rg.routes[q.Route].Strip != "" && r.Intn(6) > 0 {
		sp := rg.routes[q.Route].Strip
		if r.Intn(5) == 0 {
			// the client spells a letter of the prefix as an escape (like %7E for '~'): the same path, and what follows the
			// prefix keeps its encoding
			i := 1 + 2*r.Intn(len(sp)/2)
			sp = sp[:i] + fmt.Sprintf("%%%02X", sp[i]) + sp[i+1:]
		}
		p.WriteString(sp)
		if r.Intn(8) == 0 {
			// what follows the stripped prefix starts with a slash the client has encoded: it is data, and the path the
			// upstream gets must still be an absolute one
			p.WriteString("%2F" + choose(r, c07Segs))
		}
	}
	for n := r.Intn(5); n > 0; n-- {
		p.WriteString("/" + choose(r, c07Segs))
	}
	if p.Len() == 0 || r.Intn(4) == 0 {
		p.WriteString("/")
	}
	q.RawPath = p.String()
	if q.Route == -3 {
		q.RawPath = "/v6literal" + q.RawPath
	}
	q.Query = choose(r, []string{"", "", "a=1&b=2", "a=1&a=2&a=3", "q=x+y", "q=%26%3D", "empty=", "k"})
	q.Via = choose(r, []string{"plain", "plain", "tls", "v6"})
	switch q.Via {
	case "v6":
		q.Local = "::1"
	default:
		q.Local = choose(r, []string{"127.0.0.1", "127.9.8.7", "127.0.0.1"})
	}
	switch q.Route {
	case -1:
		q.HostHdr = "unrouted.test"
	case -2:
		q.HostHdr = "ws.test"
		q.Method = "GET"
		q.Upgrade = choose(r, []string{"websocket", "Websocket", "websocket"})
	case -3:
		q.HostHdr = "[::1]" + choose(r, []string{":8080", ":443", ":80", "", ""})
	default:
		q.HostHdr = rg.routes[q.Route].Host
		switch r.Intn(6) {
		case 0:
			q.HostHdr = strings.ToUpper(q.HostHdr)
		case 1:
			if q.Via == "tls" {
				q.HostHdr += ":443"
			} else {
				q.HostHdr += ":80"
			}
		}
	}
	// headers: ordinary end-to-end ones plus forged copies of the managed ones
	pool := []string{"X-App", "Accept", "Accept-Language", "Cookie", "X-Multi", "x-lower", "X-UPPER", "Authorization", "Cache-Control", "X-Long", "If-None-Match", "Referer", "X-Empty"}
	for n := r.Intn(12); n > 0; n-- {
		name := choose(r, pool)
		val := choose(r, []string{"1", "a b c", "text/html,application/xhtml+xml;q=0.9", "k=v; k2=v2", "ünï", `W/"etag"`, "x,y", ""})
		if name == "X-Long" {
			val = strings.Repeat("L", 1000+r.Intn(6000))
		}
		if name == "X-Empty" {
			val = ""
		}
		q.Headers = append(q.Headers, rawhttp.Header{Name: name, Value: val})
	}
	if r.Intn(2) == 0 {
		q.Headers = append(q.Headers, rawhttp.Header{Name: "Accept-Encoding", Value: choose(r, []string{"gzip", "br", "identity", "gzip, deflate"})})
	}
	if r.Intn(2) == 0 {
		q.Headers = append(q.Headers, rawhttp.Header{Name: "User-Agent", Value: choose(r, []string{"verif/1.0", "curl/8.0", ""})})
	}
	forged := []string{"X-Forwarded-For", "x-forwarded-for", "X-Forwarded-Proto", "X-Forwarded-Port", "X-Forwarded-Host", "Forwarded", "X-Real-Ip", "X-REAL-IP", "X-Client-Ip", "x-client-ip", "X-Custom", "x-custom", "X-Tls", "x-tls", "X-SSL", "x-ssl", "X-Ssl", "X-Forwarded-Ssl", "x-forwarded-SSL", "X-Client-Addr", "X-Forwarded-Prefix"}
	for n := r.Intn(4); n > 0 && r.Intn(2) == 0; n-- {
		name := choose(r, forged)
		var val string
		switch strings.ToLower(name) {
		case "x-forwarded-for":
			val = choose(r, []string{"6.6.6.6", "6.6.6.6, 7.7.7.7", "10.0.0.1"})
		case "x-forwarded-proto":
			val = choose(r, []string{"https", "http"})
		case "x-forwarded-port":
			val = choose(r, []string{"8443", "80"})
		case "x-forwarded-host":
			val = "evil.example"
		case "forwarded":
			val = choose(r, []string{"for=6.6.6.6; proto=https", "for=6.6.6.6", "for=6.6.6.6; proto=", "for=a;proto=https, for=b", "for=a; proto=\"https\"", "for=a; httpproto=http/1.1", "for=a;PROTO=https"})
		case "x-tls", "x-forwarded-prefix", "x-ssl", "x-forwarded-ssl":
			val = choose(r, []string{"on", "true", "fake"})
		default:
			val = choose(r, []string{"6.6.6.6", "1.1.1.1"})
		}
		q.Headers = append(q.Headers, rawhttp.Header{Name: name, Value: val})
	}
	r.Shuffle(len(q.Headers), func(i, j int) { q.Headers[i], q.Headers[j] = q.Headers[j], q.Headers[i] })
	// body
	if q.Method != "GET" && q.Method != "HEAD" && q.Method != "OPTIONS" || r.Intn(10) == 0 {
		n := r.Intn(2000)
		switch x := r.Intn(30); {
		case x == 0:
			n = 0
		case x == 1:
			n = 32*1024 + r.Intn(3) - 1
		case x == 2:
			n = 200000 + r.Intn(800000)
		case x == 3 && thorough && r.Intn(12) == 0:
			n = 8<<20 + r.Intn(24<<20)
		}
		q.Body = make([]byte, n)
		r.Read(q.Body)
		q.Chunked = r.Intn(3) == 0
		// (with a body: trailer fields behind an empty chunked body of a GET/HEAD/OPTIONS request are dropped by net/http's
		// transport, which probes such bodies and sends none at all when they are empty - not fabio's doing)
		if q.Chunked && len(q.Body) > 0 && r.Intn(3) == 0 {
			q.Trailers = []rawhttp.Header{{Name: "X-Checksum", Value: fmt.Sprintf("sha-%d", r.Intn(1000000))}}
			if r.Intn(2) == 0 {
				q.Trailers = append(q.Trailers, rawhttp.Header{Name: "X-Signature", Value: "a b, c"})
			}
		}
		q.ChunkSz = 1 + r.Intn(9000)
	}
	if q.Method == "HEAD" {
		q.Body, q.Trailers = nil, nil
	}
	// scripted answer of the upstream
	sc := &rawhttp.Script{Status: choose(r, []int{200, 200, 200, 201, 202, 206, 299, 301, 302, 400, 401, 403, 404, 418, 500, 502, 503, 599, 204, 304})}
	sc.Framing = choose(r, []string{"length", "length", "chunked", "close"})
	sc.ChunkSz = 1 + r.Intn(5000)
	n := r.Intn(3000)
	switch x := r.Intn(30); {
	case x == 0:
		n = 0
	case x == 1:
		n = 300000 + r.Intn(700000)
	case x == 2 && thorough && r.Intn(12) == 0:
		n = 8<<20 + r.Intn(8<<20)
	}
	sc.Body = make([]byte, n)
	r.Read(sc.Body)
	sc.Headers = []rawhttp.Header{{Name: "Content-Type", Value: choose(r, []string{"application/octet-stream", "text/plain", "application/x-verif"})}, {Name: "X-Up", Value: id}}
	if r.Intn(10) == 0 {
		sc.Headers = sc.Headers[1:] // an upstream that labels its body with no type: the client gets none either
	}
	for m := r.Intn(4); m > 0; m-- {
		sc.Headers = append(sc.Headers, rawhttp.Header{Name: choose(r, []string{"Set-Cookie", "X-Multi", "Cache-Control", "ETag", "Location", "X-Long"}), Value: choose(r, []string{"a=b; Path=/", "v1", "v2, v3", `"tag"`, "/other?x=1", strings.Repeat("R", 3000)})})
	}
	if r.Intn(15) == 0 && len(sc.Body) > 0 {
		// the upstream answers with a gzip-encoded representation (whether or not it was asked to): label and bytes pass as they are
		var zb bytes.Buffer
		zw := gzip.NewWriter(&zb)
		zw.Write(sc.Body)
		zw.Close()
		sc.Body = zb.Bytes()
		sc.Headers = append(sc.Headers, rawhttp.Header{Name: "Content-Encoding", Value: "gzip"})
	}
	if sc.Framing == "chunked" && r.Intn(3) == 0 {
		sc.Trailers = []rawhttp.Header{{Name: "X-Trailer-Sum", Value: fmt.Sprintf("%x", sha256.Sum256(sc.Body))[:16]}}
	}
	if sc.Status == 204 || sc.Status == 304 {
		sc.NoBody = true
		sc.Body = nil
	}
	if r.Intn(12) == 0 {
		sc.Info = []int{103} // early hints before the final answer
		if r.Intn(3) == 0 {
			sc.Info = []int{103, 103}
		}
	}
	if q.Route == -2 {
		sc = &rawhttp.Script{Upgrade: true}
		if r.Intn(5) == 0 {
			// the upstream refuses the upgrade with an ordinary response: it reaches the client whole
			body := make([]byte, 200+r.Intn(6000))
			r.Read(body)
			sc = &rawhttp.Script{Status: choose(r, []int{401, 403, 404, 426, 400}), Framing: "length", Body: body,
				Headers: []rawhttp.Header{{Name: "Content-Type", Value: "application/octet-stream"}, {Name: "X-Up", Value: id}}}
		}
	}
	q.Script = sc
	return q
}

func (q *c07Req) raw() []byte {
	var b bytes.Buffer
	target := q.RawPath
	if q.Query != "" {
		target += "?" + q.Query
	}
	fmt.Fprintf(&b, "%s %s HTTP/1.1\r\nHost: %s\r\nX-Verif-Id: %s\r\n", q.Method, target, q.HostHdr, q.ID)
	for _, h := range q.Headers {
		fmt.Fprintf(&b, "%s: %s\r\n", h.Name, h.Value)
	}
	if q.Upgrade != "" {
		fmt.Fprintf(&b, "Upgrade: %s\r\nConnection: Upgrade\r\nSec-WebSocket-Key: dGhlIHNhbXBsZSBub25jZQ==\r\nSec-WebSocket-Version: 13\r\n\r\n", q.Upgrade)
		return b.Bytes()
	}
	b.WriteString("Connection: close\r\n")
	switch {
	case q.Body == nil:
		b.WriteString("\r\n")
	case q.Chunked:
		if len(q.Trailers) > 0 {
			var names []string
			for _, t := range q.Trailers {
				names = append(names, t.Name)
			}
			fmt.Fprintf(&b, "Trailer: %s\r\n", strings.Join(names, ", "))
		}
		b.WriteString("Transfer-Encoding: chunked\r\n\r\n")
		for off := 0; off < len(q.Body); off += q.ChunkSz {
			e := off + q.ChunkSz
			if e > len(q.Body) {
				e = len(q.Body)
			}
			fmt.Fprintf(&b, "%x\r\n", e-off)
			b.Write(q.Body[off:e])
			b.WriteString("\r\n")
		}
		b.WriteString("0\r\n")
		for _, t := range q.Trailers {
			fmt.Fprintf(&b, "%s: %s\r\n", t.Name, t.Value)
		}
		b.WriteString("\r\n")
	default:
		fmt.Fprintf(&b, "Content-Length: %d\r\n\r\n", len(q.Body))
		b.Write(q.Body)
	}
	return b.Bytes()
}

func (q *c07Req) sent(name string) []string {
	var out []string
	// a header the client names in its Connection header is meant for this hop only: towards the upstream it counts as
	// not sent
	for _, h := range q.Headers {
		if strings.EqualFold(h.Name, "Connection") && !strings.EqualFold(name, "Connection") {
			for _, f := range strings.Split(h.Value, ",") {
				if strings.EqualFold(strings.TrimSpace(f), name) {
					return nil
				}
			}
		}
	}
	for _, h := range q.Headers {
		if strings.EqualFold(h.Name, name) {
			out = append(out, h.Value)
		}
	}
	return out
}

func c07Wire(c *ctx, which string) {
	c.R.Rule = "the real fabio binary (plain, TLS and IPv6 listeners, routes for every strip/prepend/host/target-query combination delivered through the fake Consul KV) between raw-socket clients and a socket-level recording upstream: generated methods, raw paths with percent-encoded segments, queries, 0-16 headers incl. repeated and forged managed ones, bodies 0B-1MiB by Content-Length or chunked; scripted upstream answers (status 200-599, headers, length/chunked/close framing, trailers). "
	if which == "c20" {
		c.R.Rule = "[c20-wire] the real binary (same HTTP rig as c07-wire: 54 routes, raw-socket clients, scripted upstream answers incl. 1xx informational responses, chunked/length/close framing, HEAD, large bodies) with -log.access.target stdout and a format of 12 fields, fabio's TZ set far from UTC: exactly one line per completed proxied request; status, payload size, method and service equal what the client saw on the wire; the time fields are UTC, agree with each other and lie between the sending of the request and the reading of the log on the harness clock. evaluations = logged requests compared; non-trivial = request with a non-200 status or a body"
	}
	if which == "c20" {
	} else if which == "c07" {
		c.R.Rule += "C07 oracle: method, body, query merge, raw request target after strip/prepend, Host per route option, end-to-end headers both ways, status and body bytes, no-route status/page and zero upstream hits. non-trivial = request with an encoded path segment together with strip or prepend, or a body >= 32KiB, or a non-default framing; distinct by request"
	} else {
		c.R.Rule += "C08 oracle: client-IP header, X-Forwarded-For tail, X-Real-Ip, TLS header, X-Forwarded-Proto/-Port/-Host, Forwarded, Strict-Transport-Security, on plain/TLS/IPv6/websocket requests from different loopback source addresses. non-trivial = request that carries a forged managed header, or uses TLS, a host= route, a websocket upgrade or an IPv6 literal host; distinct by request"
	}
	cfgs := []c07HdrCfg{
		{Name: "A", ClientIP: "X-Client-Ip", TLSHeader: "X-Tls", TLSValue: "on", LocalIP: "9.9.9.9", STSMaxAge: 31536000, STSSub: true, STSPre: true},
		// spellings that are not in canonical MIME header form; an HSTS max-age of 100 years (the option is an int, the value does not fit 32 bits)
		{Name: "C", ClientIP: "x-custom", TLSHeader: "X-SSL", TLSValue: "1", STSMaxAge: 3153600000},
	}
	if which == "c08" {
		// the client-IP header named like one of the headers fabio manages anyway
		cfgs = append(cfgs, c07HdrCfg{Name: "E", ClientIP: "X-Real-Ip", TLSHeader: "X-Tls", TLSValue: "yes"})
		if c.thorough() {
			cfgs = append(cfgs, c07HdrCfg{Name: "F", ClientIP: "x-forwarded-for"}, c07HdrCfg{Name: "G", ClientIP: "X-Real-IP"})
		}
	}
	if c.thorough() {
		cfgs = append(cfgs, c07HdrCfg{Name: "B", STSMaxAge: 600}, c07HdrCfg{Name: "D", TLSHeader: "x-forwarded-SSL", TLSValue: "on", ClientIP: "X-CLIENT-ADDR"})
	}
	n := c.scale(c.pick(2500, 15000))
	var wg sync.WaitGroup
	for ci, hc := range cfgs {
		wg.Add(1)
		go func(ci int, hc c07HdrCfg) {
			defer wg.Done()
			var extra []string
			if which == "c20" {
				// the access log on stdout, fabio itself in a zone far from UTC
				extra = []string{"-log.access.target", "stdout", "-log.access.format", c20WireFormat, "ENV:TZ=" + choose(c.rng(int64(ci)), []string{"Asia/Tokyo", "America/Los_Angeles", "Australia/Adelaide"})}
			}
			rg, err := newC07Rig(c, hc, extra)
			if err != nil {
				c.R.Inconcl("cannot start the HTTP rig %s: %v", hc.Name, err)
				return
			}
			defer rg.close()
			var seq atomic.Int64
			var cwg sync.WaitGroup
			var unrouted atomic.Int64
			for g := 0; g < 12; g++ {
				cwg.Add(1)
				go func(g int) {
					defer cwg.Done()
					r := c.rng(int64(ci*100 + g))
					for i := g; i < n; i += 12 {
						id := fmt.Sprintf("%s-%d", hc.Name, seq.Add(1))
						q := genC07(r, rg, id, c.thorough())
						if which == "c08" && q.Upgrade == "" && r.Intn(10) == 0 {
							// the client declares the headers fabio manages as hop-by-hop: the upstream must learn the truth all the same
							names := []string{"X-Real-Ip", "X-Forwarded-Proto", "X-Forwarded-Host", "X-Forwarded-Port", "Forwarded", "X-Forwarded-For"}
							if hc.ClientIP != "" {
								names = append(names, hc.ClientIP)
							}
							if hc.TLSHeader != "" {
								names = append(names, hc.TLSHeader)
							}
							r.Shuffle(len(names), func(i, j int) { names[i], names[j] = names[j], names[i] })
							q.Headers = append(q.Headers, rawhttp.Header{Name: "Connection", Value: strings.Join(names[:1+r.Intn(len(names))], ", ")})
						}
						c07One(c, which, rg, q, &unrouted)
					}
				}(g)
			}
			cwg.Wait()
			c.R.Count("unrouted_requests", unrouted.Load())
			if which == "c07" {
				c07NoRoutePages(c, rg)
			}
			if which == "c20" {
				c20CheckLog(c, rg)
			}
		}(ci, hc)
	}
	wg.Wait()
}

func c07Dial(rg *c07Rig, q *c07Req) rawhttp.Dial {
	d := rawhttp.Dial{Local: q.Local, Timeout: 60 * time.Second}
	switch q.Via {
	case "tls":
		d.Addr, d.TLS, d.SNI = rg.tlsA, true, "fabio.test"
	case "v6":
		d.Addr = rg.v6
	default:
		d.Addr = rg.plain
	}
	return d
}

func c07One(c *ctx, which string, rg *c07Rig, q *c07Req, unrouted *atomic.Int64) {
	c.R.Eval(1)
	rg.up.SetScript(q.ID, q.Script)
	hitsBefore := rg.up.Hits.Load()
	t0 := time.Now()
	resp := rawhttp.Do(c07Dial(rg, q), q.raw(), q.Method)
	got := rg.up.Take(q.ID)
	// fabio gives a websocket upstream one second (hard-coded) to answer the handshake; when this process is saturated
	// (thorough tier: 48 clients moving multi-megabyte bodies under the race detector) the harness upstream can miss that.
	// Such a handshake is repeated when the load has moved on; only a request that never gets through is reported.
	// (the upstream may have seen the request and answered too late as well: the client then gets nothing at all)
	for try := 0; q.Route == -2 && resp.Status == 0 && try < 3; try++ {
		c.R.Count("websocket_handshakes_repeated", 1)
		time.Sleep(time.Duration(500*(try+1)) * time.Millisecond)
		rg.up.SetScript(q.ID, q.Script)
		resp = rawhttp.Do(c07Dial(rg, q), q.raw(), q.Method)
		got = rg.up.Take(q.ID)
	}
	in := map[string]any{"Req": c07Describe(q), "Cfg": rg.hc}
	viol := func(prop, sig, detail string) {
		if prop == which {
			c.R.Violate(prop+":"+sig, detail+"\n request: "+c07Describe(q), in)
		}
	}
	if resp.Err != nil && q.Route == -1 {
		c.R.Count("noroute_requests_reset_while_sending_body", 1)
		return
	}
	if resp.Err != nil && q.Route != -2 {
		viol(which, "request-failed", fmt.Sprintf("client error: %v (status %d, %d body bytes)", resp.Err, resp.Status, len(resp.Body)))
		return
	}
	if which == "c20" {
		if q.Route >= 0 && resp.Err == nil {
			// the number in a generated header (i32toa on the request path) is the configured one
			if sts := resp.Get("Strict-Transport-Security"); len(sts) > 0 && rg.hc.STSMaxAge > 0 {
				c.R.Count("hsts_headers_compared", 1)
				if num, _, _ := strings.Cut(strings.TrimPrefix(sts[0], "max-age="), ";"); num != strconv.Itoa(rg.hc.STSMaxAge) {
					viol("c20", "hsts-number-rendered-wrong", fmt.Sprintf("Strict-Transport-Security %q, configured max-age %d (strconv.Itoa gives %q)", sts, rg.hc.STSMaxAge, strconv.Itoa(rg.hc.STSMaxAge)))
				}
			}
			rg.logged.Store(q.ID, &c20Expect{Status: resp.Status, BodyLen: len(resp.Body), Method: q.Method, Service: fmt.Sprintf("r%d", q.Route), T0: t0, T1: time.Now(), Describe: c07Describe(q), Host: q.HostHdr, URI: c20Target(q), Scheme: c20Scheme(q)})
		}
		return
	}
	// ---------- no route ----------
	if q.Route == -1 {
		unrouted.Add(1)
		if got != nil {
			viol("c07", "unrouted-request-reached-upstream", "a request without a route was forwarded")
		}
		if resp.Status != 418 {
			viol("c07", "noroute-status", fmt.Sprintf("no-route status %d, configured 418", resp.Status))
		} else if q.Method != "HEAD" && string(resp.Body) != c07NoRouteHTML {
			viol("c07", "noroute-page", fmt.Sprintf("no-route page %.80q, configured %.80q", resp.Body, c07NoRouteHTML))
		}
		_ = hitsBefore
		return
	}
	if got == nil {
		viol(which, "request-not-forwarded", fmt.Sprintf("the upstream never saw the request (client got status %d)", resp.Status))
		return
	}
	if which == "c07" && q.Route == -2 && got != nil && len(q.sent("User-Agent")) == 0 {
		if g := got.Get("User-Agent"); len(g) > 0 && g[0] != "" {
			viol("c07", "user-agent-invented:websocket", fmt.Sprintf("websocket upgrade: client sent no User-Agent, upstream saw %q", g))
		}
	}
	if which == "c07" && q.Route == -2 && q.Script.Status != 0 {
		sc := q.Script
		if resp.Err != nil || resp.Status != sc.Status || !bytes.Equal(resp.Body, sc.Body) {
			viol("c07", "refused-upgrade-altered", fmt.Sprintf("the upstream refused the websocket upgrade with status %d and %d body bytes; the client got status %d and %d bytes (err %v)", sc.Status, len(sc.Body), resp.Status, len(resp.Body), resp.Err))
		}
		return
	}
	peer := q.Local
	isTLS := q.Via == "tls"
	// ---------- C07: request fidelity ----------
	if which == "c07" && q.Route >= 0 {
		rt := rg.routes[q.Route]
		path := q.RawPath
		if dec, err := url.PathUnescape(path); rt.Strip != "" && err == nil && strings.HasPrefix(dec, rt.Strip) {
			// as much of the encoded path as decodes to the prefix goes, the rest stays as the client wrote it
			n := len(rt.Strip)
			for ; n > 0 && path != ""; n-- {
				if path[0] == '%' && len(path) >= 3 {
					path = path[3:]
				} else {
					path = path[1:]
				}
			}
			if !strings.HasPrefix(path, "/") {
				path = "/" + path
			}
		}
		path = (&url.URL{Path: rt.Prepend}).EscapedPath() + path
		query := q.Query
		if rt.TQuery != "" && query != "" {
			query = rt.TQuery + "&" + query
		} else if rt.TQuery != "" {
			query = rt.TQuery
		}
		wantTarget := path
		if query != "" {
			wantTarget += "?" + query
		}
		encoded := strings.Contains(q.RawPath, "%")
		if (encoded && (rt.Strip != "" || rt.Prepend != "")) || len(q.Body) >= 32<<10 || q.Chunked || q.Script.Framing != "length" {
			c.R.Nontrivial(q.ID)
		}
		if got.Method != q.Method {
			viol("c07", "method-changed", fmt.Sprintf("upstream saw method %s", got.Method))
		}
		if got.Target != wantTarget {
			sig := "request-target"
			if encoded && rt.Strip != "" && strings.HasPrefix(q.RawPath, rt.Strip) {
				sig += ":encoding-lost-with-strip"
			} else if encoded {
				sig += ":encoding"
			}
			viol("c07", sig, fmt.Sprintf("upstream saw target %q, want %q (route strip=%q prepend=%q query=%q)", got.Target, wantTarget, rt.Strip, rt.Prepend, rt.TQuery))
		}
		wantHost := q.HostHdr
		switch rt.HostOpt {
		case "dst":
			wantHost = rg.up.Addr()
		case "":
		default:
			wantHost = rt.HostOpt
		}
		if h := got.Get("Host"); len(h) != 1 || h[0] != wantHost {
			viol("c07", "host-header", fmt.Sprintf("upstream saw Host %q, want %q (host option %q)", h, wantHost, rt.HostOpt))
		}
		if !bytes.Equal(got.Body, q.Body) && !(len(got.Body) == 0 && len(q.Body) == 0) {
			viol("c07", "request-body", fmt.Sprintf("upstream saw %d body bytes (sha %x), client sent %d (sha %x)", len(got.Body), got.BodySHA[:6], len(q.Body), sha256.Sum256(q.Body)))
		}
		// the trailer fields that end a chunked body are part of what the client sent
		if len(q.Trailers) > 0 {
			c.R.Count("requests_with_trailer_fields", 1)
			var wantT, gotT []string
			for _, t := range q.Trailers {
				wantT = append(wantT, strings.ToLower(t.Name)+": "+t.Value)
			}
			for _, t := range got.Trailers {
				gotT = append(gotT, strings.ToLower(t.Name)+": "+t.Value)
			}
			sort.Strings(wantT)
			sort.Strings(gotT)
			if strings.Join(wantT, "|") != strings.Join(gotT, "|") {
				viol("c07", "request-trailer-fields-lost", fmt.Sprintf("the client ended its chunked body with the trailer fields %q, the upstream received %q", wantT, gotT))
			}
		}
		// end-to-end request headers
		names := map[string]bool{}
		for _, h := range q.Headers {
			names[strings.ToLower(h.Name)] = true
		}
		for nm := range names {
			if c07Managed[nm] || nm == strings.ToLower(rg.hc.ClientIP) || nm == strings.ToLower(rg.hc.TLSHeader) {
				continue
			}
			if w, g := q.sent(nm), got.Get(nm); strings.Join(w, "\x00") != strings.Join(g, "\x00") {
				viol("c07", "request-header-changed", fmt.Sprintf("header %s: client sent %q, upstream saw %q", nm, w, g))
			}
		}
		if ua := q.sent("User-Agent"); len(ua) == 0 {
			if g := got.Get("User-Agent"); len(g) > 0 && g[0] != "" {
				viol("c07", "user-agent-invented", fmt.Sprintf("client sent no User-Agent, upstream saw %q", g))
			}
		} else if g := got.Get("User-Agent"); strings.Join(g, "|") != strings.Join(ua, "|") && !(ua[0] == "" && len(g) == 0) {
			viol("c07", "request-header-changed", fmt.Sprintf("User-Agent: client sent %q, upstream saw %q", ua, g))
		}
		if ae, g := q.sent("Accept-Encoding"), got.Get("Accept-Encoding"); strings.Join(g, "|") != strings.Join(ae, "|") {
			// also when the client sent none: a negotiation started on the client's behalf changes what the upstream answers
			viol("c07", "request-header-changed", fmt.Sprintf("Accept-Encoding: client sent %q, upstream saw %q", ae, g))
		}
		// ---------- C07: response fidelity ----------
		sc := q.Script
		if resp.Status != sc.Status {
			viol("c07", "status-changed", fmt.Sprintf("client got status %d, upstream sent %d", resp.Status, sc.Status))
		}
		if q.Method != "HEAD" && !sc.NoBody && !bytes.Equal(resp.Body, sc.Body) {
			viol("c07", "response-body", fmt.Sprintf("client got %d body bytes (sha %x), upstream sent %d (sha %x), framing %s", len(resp.Body), sha256.Sum256(resp.Body), len(sc.Body), sha256.Sum256(sc.Body), sc.Framing))
		}
		snames := map[string]bool{}
		for _, h := range sc.Headers {
			snames[h.Name] = true
		}
		for nm := range snames {
			var w []string
			for _, h := range sc.Headers {
				if h.Name == nm {
					w = append(w, h.Value)
				}
			}
			if sc.Status == 304 && nm == "Content-Type" {
				continue // net/http never sends a Content-Type with 304 (RFC 7232)
			}
			if g := resp.Get(nm); strings.Join(w, "\x00") != strings.Join(g, "\x00") {
				viol("c07", "response-header-changed", fmt.Sprintf("header %s: upstream sent %q, client got %q", nm, w, g))
			}
		}
		allowed := map[string]bool{"date": true, "content-length": true, "transfer-encoding": true, "connection": true, "vary": true, "strict-transport-security": true, "trailer": true}
		for _, h := range resp.Headers {
			if !snames[h.Name] && !allowed[strings.ToLower(h.Name)] {
				known := false
				for s := range snames {
					known = known || strings.EqualFold(s, h.Name)
				}
				if !known {
					viol("c07", "response-header-invented", fmt.Sprintf("client got header %s: %q which the upstream did not send", h.Name, h.Value))
				}
			}
		}
		if len(sc.Trailers) > 0 && q.Method != "HEAD" && !sc.NoBody {
			if len(resp.Trailers) != len(sc.Trailers) || resp.Trailers[0].Value != sc.Trailers[0].Value {
				viol("c07", "trailer-lost", fmt.Sprintf("upstream sent trailers %v, client got %v", sc.Trailers, resp.Trailers))
			}
		}
		if c.R.WantSample() && encoded && rt.Strip != "" {
			c.R.Sample(map[string]any{"request": c07Describe(q), "upstream_target": got.Target, "upstream_host": got.Get("Host"), "status": resp.Status, "body_bytes": len(resp.Body)})
		}
	}
	// ---------- C08: forwarding headers ----------
	if which == "c08" {
		forgedAny := false
		for _, h := range q.Headers {
			l := strings.ToLower(h.Name)
			if strings.HasPrefix(l, "x-forwarded") || l == "forwarded" || l == "x-real-ip" || l == strings.ToLower(rg.hc.ClientIP) || (rg.hc.TLSHeader != "" && l == strings.ToLower(rg.hc.TLSHeader)) {
				forgedAny = true
			}
		}
		hostRoute := q.Route >= 0 && rg.routes[q.Route].HostOpt != ""
		if forgedAny || isTLS || hostRoute || q.Route <= -2 {
			c.R.Nontrivial(q.ID)
		}
		// the configured client-IP header is overwritten, whatever its name and spelling; named X-Forwarded-For it is the
		// list below that carries the address
		cipName := textproto.CanonicalMIMEHeaderKey(rg.hc.ClientIP)
		if rg.hc.ClientIP != "" && cipName != "X-Forwarded-For" {
			if g := got.Get(rg.hc.ClientIP); len(g) != 1 || g[0] != peer {
				viol("c08", "client-ip-header", fmt.Sprintf("%s is %q, the peer address is %s (client sent %q)", rg.hc.ClientIP, g, peer, q.sent(rg.hc.ClientIP)))
			}
		}
		// X-Forwarded-For: peer last, the client's list as prefix
		var xff []string
		for _, v := range got.Get("X-Forwarded-For") {
			for _, p := range strings.Split(v, ",") {
				xff = append(xff, strings.TrimSpace(p))
			}
		}
		var sentXFF []string
		for _, v := range q.sent("X-Forwarded-For") {
			for _, p := range strings.Split(v, ",") {
				sentXFF = append(sentXFF, strings.TrimSpace(p))
			}
		}
		if len(xff) == 0 || xff[len(xff)-1] != peer {
			sig := "xff-tail"
			if q.Upgrade != "" {
				sig += ":websocket-upgrade-" + q.Upgrade
			}
			viol("c08", sig, fmt.Sprintf("X-Forwarded-For is %q, its last element must be the peer %s", xff, peer))
		} else if strings.Join(xff[:len(xff)-1], ",") != strings.Join(sentXFF, ",") {
			viol("c08", "xff-prefix", fmt.Sprintf("X-Forwarded-For is %q, client sent %q", xff, sentXFF))
		}
		if cipName == "X-Real-Ip" {
			// the operator made it the client-IP header: decided above
		} else if sent := q.sent("X-Real-Ip"); len(sent) == 0 {
			if g := got.Get("X-Real-Ip"); len(g) != 1 || g[0] != peer {
				viol("c08", "x-real-ip", fmt.Sprintf("X-Real-Ip is %q, peer is %s", g, peer))
			}
		} else if g := got.Get("X-Real-Ip"); len(g) == 0 || g[0] != sent[0] {
			viol("c08", "x-real-ip-client-value-lost", fmt.Sprintf("X-Real-Ip is %q, client sent %q", g, sent))
		}
		if rg.hc.TLSHeader != "" {
			g := got.Get(rg.hc.TLSHeader)
			if isTLS && (len(g) != 1 || g[0] != rg.hc.TLSValue) {
				viol("c08", "tls-header-missing", fmt.Sprintf("TLS connection but %s is %q (want %q)", rg.hc.TLSHeader, g, rg.hc.TLSValue))
			}
			if !isTLS && len(g) != 0 {
				viol("c08", "tls-header-on-plain-connection", fmt.Sprintf("plain connection but upstream saw %s: %q (client sent %q)", rg.hc.TLSHeader, g, q.sent(rg.hc.TLSHeader)))
			}
		}
		proto := "http"
		if isTLS {
			proto = "https"
		}
		if sent := q.sent("X-Forwarded-Proto"); len(sent) > 0 {
			if g := got.Get("X-Forwarded-Proto"); len(g) == 0 || g[0] != sent[0] {
				viol("c08", "xfp-client-value-lost", fmt.Sprintf("X-Forwarded-Proto is %q, client sent %q", g, sent))
			}
		} else if g := got.Get("X-Forwarded-Proto"); len(g) != 1 || g[0] != proto {
			// a client-supplied Forwarded header with a proto is documented to take precedence
			// a client-supplied Forwarded header with a proto is documented to take precedence: the value must then be that
			// proto (a clean token), and the connection's scheme in every other case
			if fp := c08ForwardedProto(q.sent("Forwarded")); !(fp != "" && len(g) == 1 && strings.EqualFold(g[0], fp)) {
				viol("c08", "xfp-wrong", fmt.Sprintf("X-Forwarded-Proto is %q on a %s connection (client sent Forwarded %q)", g, proto, q.sent("Forwarded")))
			}
		}
		hostOnly, hostPort := q.HostHdr, ""
		if h, p, err := net.SplitHostPort(q.HostHdr); err == nil {
			hostOnly, hostPort = h, p
		}
		_ = hostOnly
		if sent := q.sent("X-Forwarded-Host"); len(sent) > 0 {
			if g := got.Get("X-Forwarded-Host"); len(g) == 0 || g[0] != sent[0] {
				viol("c08", "xfh-client-value-lost", fmt.Sprintf("X-Forwarded-Host is %q, client sent %q", g, sent))
			}
		} else if g := got.Get("X-Forwarded-Host"); len(g) != 1 || g[0] != q.HostHdr {
			sig := "xfh-wrong"
			if hostRoute {
				sig += ":host-option-route"
			}
			viol("c08", sig, fmt.Sprintf("X-Forwarded-Host is %q, the client asked for host %q", g, q.HostHdr))
		}
		if sent := q.sent("X-Forwarded-Port"); len(sent) > 0 {
			if g := got.Get("X-Forwarded-Port"); len(g) == 0 || g[0] != sent[0] {
				viol("c08", "xfport-client-value-lost", fmt.Sprintf("X-Forwarded-Port is %q, client sent %q", g, sent))
			}
		} else {
			g := got.Get("X-Forwarded-Port")
			_, actualPort, _ := net.SplitHostPort(c07Dial(rg, q).Addr)
			def := "80"
			if isTLS {
				def = "443"
			}
			ok := len(g) == 1 && (g[0] == actualPort || (hostPort != "" && g[0] == hostPort) || (hostPort == "" && g[0] == def))
			if !ok {
				sig := "xfport-wrong"
				if hostRoute {
					sig += ":host-option-route"
				}
				if strings.HasPrefix(q.HostHdr, "[") {
					sig += ":ipv6-literal-host"
				}
				viol("c08", sig, fmt.Sprintf("X-Forwarded-Port is %q; the client asked for host %q on the %s listener port %s", g, q.HostHdr, proto, actualPort))
			}
		}
		fw := got.Get("Forwarded")
		if sent := q.sent("Forwarded"); len(sent) > 0 {
			if len(fw) == 0 || !strings.HasPrefix(fw[0], sent[0]) {
				viol("c08", "forwarded-client-value-lost", fmt.Sprintf("Forwarded is %q, client sent %q", fw, sent))
			}
		} else if len(fw) != 1 || !strings.HasPrefix(fw[0], "for="+peer+";") {
			viol("c08", "forwarded-for", fmt.Sprintf("Forwarded is %q, want it to start with for=%s", fw, peer))
		} else if len(q.sent("X-Forwarded-Proto")) == 0 && !strings.Contains(fw[0], "proto="+proto) && q.Upgrade == "" {
			viol("c08", "forwarded-proto", fmt.Sprintf("Forwarded is %q on a %s connection", fw, proto))
		}
		if rg.hc.LocalIP != "" && len(fw) == 1 && !strings.Contains(fw[0], "by="+rg.hc.LocalIP) {
			viol("c08", "forwarded-by", fmt.Sprintf("Forwarded is %q, want by=%s", fw, rg.hc.LocalIP))
		}
		// Strict-Transport-Security on the response
		if q.Route != -2 {
			sts := resp.Get("Strict-Transport-Security")
			want := ""
			if isTLS && rg.hc.STSMaxAge > 0 {
				want = "max-age=" + strconv.Itoa(rg.hc.STSMaxAge)
				if rg.hc.STSSub {
					want += "; includeSubdomains"
				}
				if rg.hc.STSPre {
					want += "; preload"
				}
			}
			if want == "" && len(sts) > 0 {
				viol("c08", "hsts-on-plain-connection", fmt.Sprintf("Strict-Transport-Security %q on a %s connection (max-age %d)", sts, proto, rg.hc.STSMaxAge))
			}
			// the statement only says "only on TLS connections": a TLS response without the header is counted, not
			// reported (fabio loses it when the upstream sends a 1xx response first, because the reverse proxy clears
			// the header map after an informational response)
			if want != "" && len(sts) == 0 {
				c.R.Count("tls_responses_without_hsts", 1)
			} else if want != "" && (len(sts) != 1 || sts[0] != want) {
				viol("c08", "hsts-wrong", fmt.Sprintf("Strict-Transport-Security %q, want %q", sts, want))
			} else if want != "" {
				c.R.Count("tls_responses_with_hsts", 1)
			}
		}
		if c.R.WantSample() && forgedAny {
			c.R.Sample(map[string]any{"request": c07Describe(q), "peer": peer, "upstream_saw": c07Hdrs(got, "X-Forwarded-For", "X-Real-Ip", "X-Forwarded-Proto", "X-Forwarded-Host", "X-Forwarded-Port", "Forwarded", rg.hc.ClientIP, rg.hc.TLSHeader)})
		}
	}
}

func c07Hdrs(r *rawhttp.Request, names ...string) map[string][]string {
	out := map[string][]string{}
	for _, n := range names {
		if n != "" {
			out[n] = r.Get(n)
		}
	}
	return out
}

func c07Describe(q *c07Req) string {
	var hs []string
	for _, h := range q.Headers {
		v := h.Value
		if len(v) > 40 {
			v = v[:40] + "..."
		}
		hs = append(hs, h.Name+": "+v)
	}
	up := ""
	if q.Upgrade != "" {
		up = " Upgrade=" + q.Upgrade
	}
	return fmt.Sprintf("%s %s?%s Host=%s via=%s from=%s body=%dB chunked=%v%s headers=[%s] upstream-script={status %d framing %s body %dB info %v}", q.Method, q.RawPath, q.Query, q.HostHdr, q.Via, q.Local, len(q.Body), q.Chunked, up, strings.Join(hs, " | "), q.Script.Status, q.Script.Framing, len(q.Script.Body), q.Script.Info)
}

// c20CheckLog compares the access log the binary wrote with what the clients saw: exactly one line per completed
// proxied request; status, payload size, method and service as observed on the wire; the time in UTC and between the
// moments the harness sent the request and had the whole response (same clock).
func c20CheckLog(c *ctx, rg *c07Rig) {
	time.Sleep(300 * time.Millisecond) // the line is written after the response: let the last ones reach the file
	b, err := os.ReadFile(rg.rg.proc.LogPath)
	tRead := time.Now()
	if err != nil {
		c.R.Inconcl("cannot read fabio's output: %v", err)
		return
	}
	lines := map[string][]string{}
	for _, l := range strings.Split(string(b), "\n") {
		if i := strings.Index(l, "ACCESSLOG|"); i >= 0 {
			f := strings.Split(l[i:], "|")
			if len(f) >= 2 {
				lines[f[1]] = append(lines[f[1]], l[i:])
			}
		}
	}
	c.R.Count("access_log_lines", int64(len(lines)))
	rg.logged.Range(func(k, v any) bool {
		id, e := k.(string), v.(*c20Expect)
		c.R.Eval(1)
		in := map[string]any{"Req": e.Describe, "Lines": lines[id]}
		if e.Status != 200 || e.BodyLen > 0 {
			c.R.Nontrivial("log|" + id)
		}
		if len(lines[id]) != 1 {
			c.R.Violate("c20w:not-one-line", fmt.Sprintf("request %s (client saw status %d, %d body bytes) has %d access log lines\n request: %s", id, e.Status, e.BodyLen, len(lines[id]), e.Describe), in)
			return true
		}
		f := strings.Split(lines[id][0], "|")
		if len(f) != 13 {
			c.R.Violate("c20w:line-malformed", fmt.Sprintf("line %q does not have the 13 configured fields", lines[id][0]), in)
			return true
		}
		// the request as the client made it: host asked for (also on routes that rewrite Host), target, scheme of its connection
		if f[9] != e.Host {
			c.R.Violate("c20w:request-host-differs", fmt.Sprintf("the client asked for host %q, $request_host says %q\n request: %s", e.Host, f[9], e.Describe), in)
		}
		if f[10] != e.URI {
			c.R.Violate("c20w:request-uri-differs", fmt.Sprintf("the client sent the target %q, $request_uri says %q", e.URI, f[10]), in)
		}
		if e.Scheme != "" {
			if f[11] != e.Scheme {
				c.R.Violate("c20w:request-scheme-differs", fmt.Sprintf("the client's connection is %s, $request_scheme says %q\n request: %s", e.Scheme, f[11], e.Describe), in)
			}
			if u, err := url.ParseRequestURI(e.URI); err == nil {
				// the request's own URL keeps the client's encoding of the path and a bare '?'
				want := (&url.URL{Scheme: e.Scheme, Host: e.Host, Path: u.Path, RawPath: u.RawPath, ForceQuery: u.ForceQuery, RawQuery: u.RawQuery}).String()
				if f[12] != want {
					c.R.Violate("c20w:request-url-differs", fmt.Sprintf("$request_url is %q, the standard library renders the client's request as %q\n request: %s", f[12], want, e.Describe), in)
				}
			}
		}
		if f[2] != strconv.Itoa(e.Status) {
			c.R.Violate("c20w:status-differs", fmt.Sprintf("the client received status %d, the log says %s\n request: %s", e.Status, f[2], e.Describe), in)
		}
		if e.Method != "HEAD" && f[3] != strconv.Itoa(e.BodyLen) {
			c.R.Violate("c20w:body-size-differs", fmt.Sprintf("the client received %d body bytes (status %d), the log says %s\n request: %s", e.BodyLen, e.Status, f[3], e.Describe), in)
		}
		if f[4] != e.Method {
			c.R.Violate("c20w:method-differs", fmt.Sprintf("method %s logged as %s", e.Method, f[4]), in)
		}
		if f[5] != e.Service {
			c.R.Violate("c20w:service-differs", fmt.Sprintf("request routed to %s logged as %s", e.Service, f[5]), in)
		}
		ts, err := time.Parse("2006-01-02T15:04:05.000Z", f[6])
		ms, err2 := strconv.ParseInt(f[7], 10, 64)
		tc, err3 := time.Parse("02/Jan/2006:15:04:05 -0700", f[8])
		switch {
		case err != nil || err2 != nil || err3 != nil:
			c.R.Violate("c20w:time-malformed", fmt.Sprintf("time fields %q %q %q do not parse (%v %v %v)", f[6], f[7], f[8], err, err2, err3), in)
		case ts.Before(e.T0.Add(-2*time.Millisecond)) || ts.After(tRead):
			// the logged instant is the end of fabio's handler: after the request was sent, before the log was read
			c.R.Violate("c20w:time-not-utc", fmt.Sprintf("$time_rfc3339_ms %s does not lie between the moment the request was sent (%s) and the moment the log was read (%s), in UTC", f[6], e.T0.UTC().Format(time.RFC3339Nano), tRead.UTC().Format(time.RFC3339Nano)), in)
		case ts.UnixMilli() != ms:
			c.R.Violate("c20w:time-fields-disagree", fmt.Sprintf("$time_rfc3339_ms %s and $time_unix_ms %s differ", f[6], f[7]), in)
		case tc.Unix() != ts.Unix():
			c.R.Violate("c20w:time-fields-disagree", fmt.Sprintf("$time_common %s and $time_rfc3339_ms %s differ", f[8], f[6]), in)
		}
		if c.R.WantSample() && e.Status != 200 {
			c.R.Sample(map[string]any{"client_status": e.Status, "client_body_bytes": e.BodyLen, "log_line": lines[id][0]})
		}
		return true
	})
}

// c07NoRoutePages: the operator withdraws, replaces and restores the no-route page while fabio runs: after each change
// (confirmed by the KV watcher coming back) an unrouted request must get the status and the page configured now.
func c07NoRoutePages(c *ctx, rg *c07Rig) {
	pages := []string{"", "<html>second page</html>", "", c07NoRouteHTML, "<p>third</p>", c07NoRouteHTML}
	for i, page := range pages {
		var idx uint64
		if page == "" {
			idx = rg.rg.agent.DeleteKV("fabio/noroute.html")
		} else {
			idx = rg.rg.agent.PutKV("fabio/noroute.html", page)
		}
		if !rg.rg.agent.WaitKVQuery("fabio/noroute.html", idx, barrierWatchdog) {
			c.R.Inconcl("the no-route page watcher did not come back with index %d", idx)
			return
		}
		// the watcher has handed the value over; the handler publishes it right after: a few tries
		var resp *rawhttp.Response
		ok := false
		for try := 0; try < 40 && !ok; try++ {
			raw := fmt.Sprintf("GET /nowhere/%d HTTP/1.1\r\nHost: unrouted-%d.invalid\r\nConnection: close\r\n\r\n", i, i)
			resp = rawhttp.Do(rawhttp.Dial{Addr: rg.plain, Timeout: 20 * time.Second}, []byte(raw), "GET")
			ok = resp.Err == nil && resp.Status == 418 && string(resp.Body) == page
			if !ok {
				time.Sleep(50 * time.Millisecond)
			}
		}
		c.R.Eval(1)
		c.R.Nontrivial(fmt.Sprintf("noroute-page-%s-%d", rg.hc.Name, i))
		if !ok {
			c.R.Violate("c07:noroute-page-stale", fmt.Sprintf("step %d: the configured no-route page is now %q, but an unrouted request still gets status %d and page %.80q (err %v) 2s after fabio fetched the change", i, page, resp.Status, resp.Body, resp.Err), map[string]any{"pages": pages[:i+1]})
			return
		}
	}
	c.R.Count("noroute_page_changes", int64(len(pages)))
}

func c20Target(q *c07Req) string {
	if q.Query != "" {
		return q.RawPath + "?" + q.Query
	}
	return q.RawPath
}

func c20Scheme(q *c07Req) string {
	if len(q.sent("X-Forwarded-Proto")) > 0 || len(q.sent("Forwarded")) > 0 {
		return "" // what the scheme field should say then is not demanded
	}
	if q.Via == "tls" {
		return "https"
	}
	return "http"
}

// c08ForwardedProto: the proto parameter of a client-sent Forwarded header (RFC 7239: comma separated elements of
// semicolon separated name=value pairs, names case-insensitive, values possibly quoted); "" when there is none.
func c08ForwardedProto(lines []string) string {
	for _, fwd := range lines {
		for _, el := range strings.Split(fwd, ",") {
			for _, pair := range strings.Split(el, ";") {
				k, v, ok := strings.Cut(pair, "=")
				if ok && strings.EqualFold(strings.TrimSpace(k), "proto") {
					if v = strings.Trim(strings.TrimSpace(v), `"`); v != "" {
						return v
					}
				}
			}
		}
		break // only the first line counts
	}
	return ""
}
