package main

import (
	"crypto/sha1"
	"encoding/base64"
	"fmt"
	"math/rand"
	"net"
	"net/http"
	"net/http/httptest"
	"net/netip"
	"os"
	"path/filepath"
	"strings"
	"time"

	"github.com/fabiolb/fabio/auth"
	"github.com/fabiolb/fabio/config"
)

func init() { register("c12-decision", "C12", c12Decision) }

type c12Item struct {
	Text string // as written in the option, e.g. "ip:10.0.0.0/8"
	Good bool
	Pfx  string // canonical prefix when Good
}

var c12Addrs = []string{"10.0.0.1", "10.1.2.3", "10.255.255.255", "11.0.0.1", "192.168.1.7", "192.168.2.7", "172.16.5.5", "127.0.0.1", "8.8.8.8", "0.0.0.0", "255.255.255.255",
	"::1", "fe80::1", "fe80::abcd", "fd00::1", "fd00:1::9", "2001:db8::1", "2001:db8:1::1", "::ffff:10.0.0.1", "::ffff:192.168.1.7", "::"}
var c12Blocks = []string{"10.0.0.0/8", "10.1.0.0/16", "10.1.2.3/8", "192.168.1.0/24", "192.168.1.7/32", "192.168.1.7", "127.0.0.0/8", "0.0.0.0/0", "8.8.8.8", "172.16.0.0/12",
	"::1", "::1/128", "fe80::/10", "fd00::/8", "2001:db8::/32", "2001:db8:1::/48", "::/0", "fe80::1", "11.0.0.1/32"}
var c12Bad = []string{"ip:10.0.0.0/33", "ip:fe80::/129", "", "10.0.0.0/8", "ipx:10.0.0.0/8", "ip:garbage", "ip:", "ip:10.0.0.256", "ip:1.2.3.4/", "ip:/8", "ip:10.0.0.0/-1", "host:foo", "ip:10.0.0.0/8/8", "ip:1.2.3"}

func genC12Items(r *rand.Rand, allowBad bool) []c12Item {
	n := 1 + r.Intn(4)
	var items []c12Item
	for i := 0; i < n; i++ {
		if allowBad && r.Intn(4) == 0 {
			items = append(items, c12Item{Text: choose(r, c12Bad)})
			continue
		}
		b := choose(r, c12Blocks)
		typ := choose(r, []string{"ip", "ip", "IP", "Ip"})
		var pfx netip.Prefix
		if strings.Contains(b, "/") {
			pfx = netip.MustParsePrefix(b).Masked()
		} else {
			a := netip.MustParseAddr(b)
			pfx = netip.PrefixFrom(a, a.BitLen())
		}
		items = append(items, c12Item{Text: typ + ":" + b, Good: true, Pfx: pfx.String()})
	}
	return items
}

func c12In(items []c12Item, a netip.Addr) bool {
	a = a.Unmap().WithZone("")
	for _, it := range items {
		if !it.Good {
			continue
		}
		p := netip.MustParsePrefix(it.Pfx)
		pa := p.Addr().Unmap()
		bits := p.Bits()
		if p.Addr().Is4In6() {
			bits -= 96
		}
		if netip.PrefixFrom(pa, bits).Contains(a) {
			return true
		}
	}
	return false
}

type c12Case struct {
	Kind       string // allow | deny
	Items      []c12Item
	Remote     string    // RemoteAddr host part
	XFF        []string  // X-Forwarded-For header values (each may hold a comma list)
	Other      []c12Item // a second list of the other kind on the same route (allow + deny)
	Extra      string    // another option on the same route
	ExtraFirst bool
}

func genC12(r *rand.Rand) *c12Case {
	cs := &c12Case{Kind: choose(r, []string{"allow", "deny"})}
	cs.Items = genC12Items(r, r.Intn(3) == 0)
	if r.Intn(10) == 0 {
		cs.Other = genC12Items(r, false)
	}
	if r.Intn(4) == 0 {
		cs.Extra = choose(r, []string{"strip=/x", "proto=http", "redirect=200", "redirect=301x", "redirect=", "redirect=999", "tlsskipverify=true", "weight=abc", "host=dst", "unknownoption=1", "auth=nosuch", "auth=", "auth"})
		cs.ExtraFirst = r.Intn(2) == 0
	}
	cs.Remote = choose(r, c12Addrs)
	if r.Intn(8) == 0 && strings.Contains(cs.Remote, ":") && !strings.Contains(cs.Remote, ".") {
		cs.Remote += "%" + choose(r, []string{"eth0", "1", "lo"})
	}
	for n := r.Intn(3); n > 0; n-- {
		var parts []string
		for m := 1 + r.Intn(3); m > 0; m-- {
			x := choose(r, c12Addrs)
			switch r.Intn(12) {
			case 0:
				x = " " + x + "  "
			case 1:
				x = choose(r, []string{"unknown", "_hidden", "example.com", ""})
			case 2:
				// the other spellings proxies use for an address: with a port, in brackets, with a zone
				if strings.Contains(x, ":") {
					x = choose(r, []string{"[" + x + "]", "[" + x + "]:4711", x + "%eth0"})
				} else {
					x += ":4711"
				}
			}
			parts = append(parts, x)
		}
		cs.XFF = append(cs.XFF, strings.Join(parts, choose(r, []string{",", ", ", " ,"})))
	}
	if r.Intn(12) == 0 {
		// a long chain of hops (padding by a client in front of a trusted balancer): every element counts, wherever it stands
		pad := choose(r, c12Addrs)
		n := choose(r, []int{8, 16, 31, 32, 33, 34, 50, 64, 100, 200, 500})
		parts := make([]string, n)
		for i := range parts {
			parts[i] = pad
		}
		for k := 1 + r.Intn(2); k > 0; k-- {
			parts[choose(r, []int{0, n - 1, n - 2, n / 2, r.Intn(n)})] = choose(r, c12Addrs)
		}
		cs.XFF = append(cs.XFF, strings.Join(parts, choose(r, []string{",", ", "})))
	}
	return cs
}

type fakeConn struct {
	net.Conn
	remote net.Addr
}

func (f fakeConn) RemoteAddr() net.Addr { return f.remote }

func c12Decision(c *ctx) {
	n := c.scale(c.pick(300000, 10000000))
	c.R.Rule = "generated allow/deny lists (IPv4/IPv6 addresses and CIDR blocks with host bits, /0, /32, /128, v4-mapped; plus malformed items) x peers (IPv4, IPv6, v4-mapped, zone-scoped) x X-Forwarded-For chains; Target.AccessDeniedHTTP/AccessDeniedTCP vs an independent net/netip evaluation; lists with malformed items are checked one-directionally (never wider than the well-formed items allow). Authorized() with generated scheme maps. non-trivial = decision where the peer and the XFF chain disagree or the list has a malformed item or the peer is zone-scoped/v4-mapped; distinct by case"
	run := func(cs *c12Case) {
		c.R.Eval(1)
		in := map[string]any{"Case": cs}
		var texts []string
		allGood := true
		for _, it := range cs.Items {
			texts = append(texts, it.Text)
			allGood = allGood && it.Good
		}
		if strings.Join(texts, ",") == "" {
			// an allow list without a single block admits nobody; 'deny=' without a value denies nothing
			if cs.Kind != "allow" || len(cs.Other) > 0 || cs.Extra != "" {
				return
			}
			t, err := newTable("route add svc acl.test/ http://10.0.0.9:80/ opts \"allow=\"")
			if err != nil {
				return
			}
			req := httptest.NewRequest("GET", "http://acl.test/", nil)
			req.RemoteAddr = net.JoinHostPort(strings.Split(cs.Remote, "%")[0], "4242")
			c.R.Nontrivial("empty-allow|" + cs.Remote)
			if !t["acl.test"][0].Targets[0].AccessDeniedHTTP(req) {
				c.R.Violate("c12:http:admitted-but-must-refuse:allow:empty-list", fmt.Sprintf("opts \"allow=\": an allow list without any block admits only addresses inside its (no) blocks, yet peer %s is admitted", cs.Remote), in)
			}
			return
		}
		// other options next to the rule, well-formed or not, must not make the rule vanish
		extra := ""
		if cs.Extra != "" {
			extra = " " + cs.Extra
		}
		script := fmt.Sprintf("route add svc acl.test/ http://10.0.0.9:80/ opts \"%s=%s%s\"", cs.Kind, strings.Join(texts, ","), extra)
		if cs.ExtraFirst && cs.Extra != "" {
			script = fmt.Sprintf("route add svc acl.test/ http://10.0.0.9:80/ opts \"%s %s=%s\"", cs.Extra, cs.Kind, strings.Join(texts, ","))
		}
		if len(cs.Other) > 0 {
			// both kinds of rule on one route: whatever fabio makes of the combination, this list keeps its meaning
			var ot []string
			for _, it := range cs.Other {
				ot = append(ot, it.Text)
			}
			if strings.Join(ot, ",") != "" {
				otherKind := map[string]string{"allow": "deny", "deny": "allow"}[cs.Kind]
				script = fmt.Sprintf("route add svc acl.test/ http://10.0.0.9:80/ opts \"%s=%s %s=%s\"", cs.Kind, strings.Join(texts, ","), otherKind, strings.Join(ot, ","))
				allGood = false // the combination may refuse more than this list alone: checked one-directionally
			}
		}
		t, err := newTable(script)
		if err != nil {
			c.R.Violate("c12:table", err.Error(), in)
			return
		}
		tg := t["acl.test"][0].Targets[0]
		hostport := net.JoinHostPort(cs.Remote, "4242")
		req := httptest.NewRequest("GET", "http://acl.test/", nil)
		req.RemoteAddr = hostport
		for _, x := range cs.XFF {
			req.Header.Add("X-Forwarded-For", x)
		}
		peer, perr := netip.ParseAddr(cs.Remote)
		if perr != nil {
			c.R.Inconcl("generator produced unparsable peer %q", cs.Remote)
			return
		}
		// reference decision over the well-formed items
		addrs := []netip.Addr{peer}
		// only the first X-Forwarded-For header line is what Header.Get returns; the statement speaks of
		// "every address listed in X-Forwarded-For": we take all lines
		for _, line := range cs.XFF {
			for _, p := range strings.Split(line, ",") {
				if a, ok := c12ForwardedAddr(strings.TrimSpace(p)); ok {
					addrs = append(addrs, a)
				}
			}
		}
		refDenied := false
		if cs.Kind == "allow" {
			for _, a := range addrs {
				if !c12In(cs.Items, a) {
					refDenied = true
				}
			}
		} else {
			for _, a := range addrs {
				if c12In(cs.Items, a) {
					refDenied = true
				}
			}
		}
		var got bool
		if p := safely(func() { got = tg.AccessDeniedHTTP(req) }); p != "" {
			c.R.Violate("c12:panic", p, in)
			return
		}
		special := !allGood || strings.Contains(cs.Remote, "%") || strings.HasPrefix(cs.Remote, "::ffff:") || len(addrs) > 1
		if special {
			c.R.Nontrivial(fmt.Sprintf("%+v", *cs))
		}
		if c.R.WantSample() && !allGood && len(cs.XFF) > 0 {
			c.R.Sample(map[string]any{"route": script, "remote": hostport, "xff": cs.XFF, "reference_denied": refDenied, "fabio_denied": got})
		}
		sigx := ""
		switch {
		case !allGood:
			sigx = ":malformed-item"
		case strings.Contains(cs.Remote, "%"):
			sigx = ":zone-scoped-peer"
		case len(cs.XFF) > 1:
			sigx = ":multiple-xff-lines"
		}
		if refDenied && !got {
			c.R.Violate("c12:http:admitted-but-must-refuse:"+cs.Kind+sigx, fmt.Sprintf("%s: peer %s xff %q admitted; reference over well-formed items refuses", script, cs.Remote, cs.XFF), in)
			return
		}
		if allGood && !refDenied && got {
			c.R.Violate("c12:http:refused-but-must-admit:"+cs.Kind+sigx, fmt.Sprintf("%s: peer %s xff %q refused; reference admits", script, cs.Remote, cs.XFF), in)
			return
		}
		// TCP: peer only
		ta := &net.TCPAddr{IP: net.IP(peer.WithZone("").AsSlice()), Port: 4242, Zone: peer.Zone()}
		tcpRef := c12In(cs.Items, peer)
		if cs.Kind == "allow" {
			tcpRef = !tcpRef
		}
		if strings.HasPrefix(cs.Extra, "auth=") || cs.Extra == "auth" {
			tcpRef = true // the route asks for credentials, which a TCP connection cannot present
		}
		var gotT bool
		if p := safely(func() { gotT = tg.AccessDeniedTCP(fakeConn{remote: ta}) }); p != "" {
			c.R.Violate("c12:panic-tcp", p, in)
			return
		}
		if tcpRef && !gotT {
			c.R.Violate("c12:tcp:admitted-but-must-refuse:"+cs.Kind+sigx, fmt.Sprintf("%s: tcp peer %s admitted", script, ta), in)
		} else if allGood && !tcpRef && gotT {
			c.R.Violate("c12:tcp:refused-but-must-admit:"+cs.Kind+sigx, fmt.Sprintf("%s: tcp peer %s refused", script, ta), in)
		}
	}
	if c.Replay != "" {
		var in struct{ Case *c12Case }
		loadReplay(c, &in)
		if in.Case != nil {
			run(in.Case)
		}
		return
	}
	c12Auth(c)
	parallel(c, n, func(r *rand.Rand, i int) { run(genC12(r)) })
}

// c12Auth: Target.Authorized with generated scheme maps and credentials.
func c12Auth(c *ctx) {
	r := c.rng(77)
	dir := filepath.Join(c.Dir, "htpasswd")
	os.MkdirAll(dir, 0o755)
	users := map[string]string{"alice": "wonder land", "bob": "p:ss", "carol": "", "dave": "ünï"}
	var lines []string
	for u, p := range users {
		if r.Intn(2) == 0 {
			h := sha1.Sum([]byte(p))
			lines = append(lines, u+":{SHA}"+base64.StdEncoding.EncodeToString(h[:]))
		} else {
			lines = append(lines, u+":"+p) // plain text entry
		}
	}
	file := filepath.Join(dir, "users")
	os.WriteFile(file, []byte(strings.Join(lines, "\n")+"\n"), 0o600)
	schemes, err := auth.LoadAuthSchemes(map[string]config.AuthScheme{
		"basic1": {Name: "basic1", Type: "basic", Basic: config.BasicAuth{Realm: "r1", File: file, Refresh: 0 * time.Second}},
	})
	if err != nil {
		c.R.Inconcl("LoadAuthSchemes: %v", err)
		return
	}
	n := c.pick(20000, 400000)
	for i := 0; i < n; i++ {
		c.R.Eval(1)
		scheme := choose(r, []string{"", "basic1", "basic1", "nosuch", "BASIC1", "basic", "<auth= without a value>", "<bare auth>", "<auth= basic1>"})
		opts := ""
		switch {
		case scheme == "<auth= without a value>": // the option is there and names no scheme that can exist: nobody gets in
			opts = " opts \"auth=\""
		case scheme == "<bare auth>":
			opts = " opts \"strip=/x auth\""
		case scheme == "<auth= basic1>":
			opts = " opts \"auth= basic1\""
		case scheme != "":
			opts = fmt.Sprintf(" opts \"auth=%s\"", scheme)
		}
		t, err := newTable("route add svc a.test/ http://10.0.0.9:80/" + opts)
		if err != nil {
			c.R.Violate("c12:table", err.Error(), nil)
			return
		}
		tg := t["a.test"][0].Targets[0]
		req := httptest.NewRequest("GET", "http://a.test/", nil)
		user := choose(r, []string{"alice", "bob", "carol", "dave", "eve", ""})
		pass := users[user]
		kind := r.Intn(6)
		expectOK := false
		switch kind {
		case 0: // right credentials
			req.SetBasicAuth(user, pass)
			_, expectOK = users[user]
		case 1: // wrong password
			req.SetBasicAuth(user, pass+"x")
		case 2: // none
		case 3:
			req.Header.Set("Authorization", choose(r, []string{"Basic", "Basic !!!", "Bearer abc", "basic " + base64.StdEncoding.EncodeToString([]byte("nocolon")), "Basic " + base64.StdEncoding.EncodeToString([]byte("alice"))}))
		case 4: // password of another user
			req.SetBasicAuth(user, users["alice"]+"#")
		case 5:
			req.SetBasicAuth(strings.ToUpper(user), pass)
			expectOK = false
			if strings.ToUpper(user) == user {
				_, expectOK = users[user]
			}
		}
		rec := httptest.NewRecorder()
		var got bool
		schemes := schemes
		switch r.Intn(8) {
		case 0: // an instance without any configured scheme: every named scheme is unknown there
			schemes, expectOK = nil, false
		case 1:
			schemes, expectOK = map[string]auth.AuthScheme{}, false
		}
		if len(schemes) == 0 && scheme == "basic1" {
			scheme = "basic1-but-not-configured"
		}
		if p := safely(func() { got = tg.Authorized(req, rec, schemes) }); p != "" {
			c.R.Violate("c12:auth-panic", p, nil)
			return
		}
		in := map[string]any{"scheme": scheme, "user": user, "kind": kind}
		switch scheme {
		case "":
			if !got {
				c.R.Violate("c12:auth:no-scheme-refused", "route without auth scheme refused a request", in)
			}
		case "basic1":
			c.R.Nontrivial(fmt.Sprintf("auth %s %s %d", scheme, user, kind))
			if got != expectOK {
				c.R.Violate("c12:auth:basic-decision", fmt.Sprintf("user %q kind %d: authorized=%v want %v", user, kind, got, expectOK), in)
			}
			if !got && kind == 2 && !strings.HasPrefix(rec.Header().Get("WWW-Authenticate"), "Basic") {
				c.R.Violate("c12:auth:no-challenge", "no WWW-Authenticate challenge for a request without credentials", in)
			}
		default:
			c.R.Nontrivial(fmt.Sprintf("auth %s %s %d", scheme, user, kind))
			if got {
				c.R.Violate("c12:auth:unknown-scheme-admitted", fmt.Sprintf("unknown scheme %q admitted a request", scheme), in)
			}
		}
	}
	c.R.Count("auth_decisions", int64(n))
	_ = http.StatusOK
	c12AuthReload(c, dir)
}

// c12AuthReload: a scheme with refresh: the htpasswd file is replaced at run time (edited in place, renamed over with an
// older modification time as cp -p / rsync -t / a restore from backup do, removed, restored); after a few refresh periods
// the decisions must follow the file as it is now.
func c12AuthReload(c *ctx, dir string) {
	file := filepath.Join(dir, "users-reload")
	write := func(content string, mtime time.Time) {
		tmp := file + ".tmp"
		os.WriteFile(tmp, []byte(content), 0o600)
		if !mtime.IsZero() {
			os.Chtimes(tmp, mtime, mtime)
		}
		os.Rename(tmp, file)
	}
	write("alice:pw1\nbob:pw2\n", time.Time{})
	schemes, err := auth.LoadAuthSchemes(map[string]config.AuthScheme{"rl": {Name: "rl", Type: "basic", Basic: config.BasicAuth{Realm: "r", File: file, Refresh: 100 * time.Millisecond}}})
	if err != nil {
		c.R.Inconcl("LoadAuthSchemes (refresh): %v", err)
		return
	}
	t, err := newTable(`route add svc a.test/ http://10.0.0.9:80/ opts "auth=rl"`)
	if err != nil {
		c.R.Inconcl("table: %v", err)
		return
	}
	tg := t["a.test"][0].Targets[0]
	ok := func(user, pass string) bool {
		req := httptest.NewRequest("GET", "http://a.test/", nil)
		req.SetBasicAuth(user, pass)
		return tg.Authorized(req, httptest.NewRecorder(), schemes)
	}
	type step struct {
		desc    string
		content string
		mtime   time.Time
		remove  bool
		want    map[string]bool // "user:pass" -> accepted
	}
	past := time.Now().Add(-24 * time.Hour)
	steps := []step{
		{"initial file", "", time.Time{}, false, map[string]bool{"alice:pw1": true, "bob:pw2": true, "bob:x": false}},
		{"bob revoked, file renamed over with an mtime 24h in the past", "alice:pw1\n", past, false, map[string]bool{"alice:pw1": true, "bob:pw2": false}},
		{"alice's password changed, mtime older still", "alice:new\n", past.Add(-time.Hour), false, map[string]bool{"alice:new": true, "alice:pw1": false, "bob:pw2": false}},
		{"file removed", "", time.Time{}, true, map[string]bool{"alice:new": false, "alice:pw1": false}},
		{"file restored with a current mtime", "carol:pw3\n", time.Time{}, false, map[string]bool{"carol:pw3": true, "alice:new": false}},
	}
	for i, st := range steps {
		if i > 0 {
			if st.remove {
				os.Remove(file)
			} else {
				write(st.content, st.mtime)
			}
		}
		// bounded progress: 20 refresh periods
		var wrong string
		for try := 0; try < 40; try++ {
			wrong = ""
			for cred, want := range st.want {
				up := strings.SplitN(cred, ":", 2)
				if got := ok(up[0], up[1]); got != want {
					wrong = fmt.Sprintf("%s accepted=%v want %v", cred, got, want)
				}
			}
			if wrong == "" {
				break
			}
			time.Sleep(50 * time.Millisecond)
		}
		c.R.Eval(1)
		c.R.Nontrivial("auth-reload " + st.desc)
		if wrong != "" {
			c.R.Violate("c12:auth:credentials-do-not-follow-the-file", fmt.Sprintf("htpasswd scheme with refresh=100ms, step %q: 2s later %s", st.desc, wrong), map[string]any{"step": st.desc})
			return
		}
	}
	c.R.Count("auth_reload_steps", int64(len(steps)))
}

// c12ForwardedAddr reads one X-Forwarded-For element: an address, possibly with a port, in brackets or with a zone.
func c12ForwardedAddr(p string) (netip.Addr, bool) {
	if a, err := netip.ParseAddr(p); err == nil {
		return a.WithZone(""), true
	}
	if ap, err := netip.ParseAddrPort(p); err == nil {
		return ap.Addr().WithZone(""), true
	}
	if strings.HasPrefix(p, "[") && strings.HasSuffix(p, "]") {
		if a, err := netip.ParseAddr(p[1 : len(p)-1]); err == nil {
			return a.WithZone(""), true
		}
	}
	return netip.Addr{}, false
}
