package main

import (
	"encoding/hex"
	"fmt"
	"os"
	"sync"
	"sync/atomic"
	"syscall"
	"time"
)

// hangGuard decides "this call never returns" for short CPU-bound calls (parsers,
// formatters, table builders on small inputs) whose normal cost is microseconds:
// a call that is still running after `limit` of wall-clock time during which the
// process also consumed at least limit/2 of CPU time (so the machine was not
// simply frozen) is reported as a violation together with its input, the report
// is written and the part ends. The margin is six orders of magnitude; this is
// the one place where elapsed time decides, because a non-returning call offers
// no other observable event.
type hangGuard struct {
	c     *ctx
	sig   string
	limit time.Duration
	mu    sync.Mutex
	slots []*hangSlot
	pool  sync.Pool
	cpu   atomic.Int64 // process cpu time, refreshed by the watcher
}

type hangSlot struct {
	start atomic.Int64 // unix nanos, 0 = idle
	cpu   atomic.Int64 // process cpu nanos at start
	data  atomic.Pointer[[]byte]
}

func cpuNanos() int64 {
	var ru syscall.Rusage
	if syscall.Getrusage(syscall.RUSAGE_SELF, &ru) != nil {
		return 0
	}
	return ru.Utime.Nano() + ru.Stime.Nano()
}

func newHangGuard(c *ctx, sig string, limit time.Duration) *hangGuard {
	g := &hangGuard{c: c, sig: sig, limit: limit}
	g.pool.New = func() any {
		s := &hangSlot{}
		g.mu.Lock()
		g.slots = append(g.slots, s)
		g.mu.Unlock()
		return s
	}
	g.cpu.Store(cpuNanos())
	go func() {
		for {
			time.Sleep(250 * time.Millisecond)
			now, cpu := time.Now().UnixNano(), cpuNanos()
			g.cpu.Store(cpu)
			g.mu.Lock()
			slots := append([]*hangSlot(nil), g.slots...)
			g.mu.Unlock()
			for _, s := range slots {
				st := s.start.Load()
				if st == 0 || time.Duration(now-st) < g.limit || time.Duration(cpu-s.cpu.Load()) < g.limit/2 {
					continue
				}
				d := s.data.Load()
				if d == nil || s.start.Load() != st {
					continue
				}
				c.R.Violate(sig, fmt.Sprintf("a call on a %d-byte input has not returned after %s (process cpu time advanced %s meanwhile)", len(*d), time.Duration(now-st).Round(time.Second), time.Duration(cpu-s.cpu.Load()).Round(time.Second)), map[string]any{"Hex": hex.EncodeToString(*d)})
				c.finishNow()
			}
		}
	}()
	return g
}

// enter marks a call on data as in flight; the returned function marks its return.
func (g *hangGuard) enter(data []byte) func() {
	s := g.pool.Get().(*hangSlot)
	s.data.Store(&data)
	s.cpu.Store(g.cpu.Load())
	s.start.Store(time.Now().UnixNano())
	return func() {
		s.start.Store(0)
		g.pool.Put(s)
	}
}

// finishNow writes the report as it stands and ends the process: used when a
// monitor has decided and the code under test cannot be made to return.
func (c *ctx) finishNow() {
	if c.Out != "" {
		if err := c.R.Write(c.Out); err != nil {
			fmt.Fprintln(os.Stderr, "write report:", err)
			os.Exit(2)
		}
		if f := os.Getenv("VH_COMPLETE"); f != "" {
			os.WriteFile(f, []byte("done"), 0o644)
		}
	} else {
		c.R.Finish()
		for _, v := range c.R.Violations {
			fmt.Printf("  VIOL %s: %s\n", v.Sig, v.Detail)
		}
	}
	os.Exit(0)
}
