package main

import (
	"bytes"
	"fmt"
	"math"
	"math/rand"
	"net"
	"net/http"
	"net/http/httptest"
	"net/url"
	"regexp"
	"strconv"
	"strings"
	"sync"
	"time"

	"github.com/fabiolb/fabio/config"
	"github.com/fabiolb/fabio/logger"
	"github.com/fabiolb/fabio/proxy"
	"github.com/fabiolb/fabio/route"
	"github.com/fabiolb/fabio/uuid"
)

func init() {
	register("c20-logger", "C20", c20Logger)
	register("c20-format", "C20", c20Format)
}

type c20Event struct {
	End, Start             time.Time
	Method, URI, Proto     string
	Host, Remote, Upstream string
	Status                 int
	Size                   int64
	ReqURL, UpURL          string
	Service                string
	Hdr                    map[string]string
	NoResponse             bool // an event without a response (the Event documents all four HTTP members as optional)
}

func (e *c20Event) event() *logger.Event {
	req := &http.Request{Method: e.Method, RequestURI: e.URI, Proto: e.Proto, Host: e.Host, RemoteAddr: e.Remote, Header: http.Header{}}
	for k, v := range e.Hdr {
		req.Header.Set(k, v)
	}
	ev := &logger.Event{Start: e.Start, End: e.End, Request: req, Response: &http.Response{StatusCode: e.Status, ContentLength: e.Size},
		UpstreamAddr: e.Upstream, UpstreamService: e.Service}
	ev.RequestURL, _ = url.Parse(e.ReqURL)
	ev.UpstreamURL, _ = url.Parse(e.UpURL)
	if e.NoResponse {
		ev.Response = nil
	}
	return ev
}

var c20Zones = []*time.Location{time.UTC, time.FixedZone("p14", 14*3600), time.FixedZone("m12", -12*3600), time.FixedZone("p0530", 5*3600+1800), time.FixedZone("m0330", -3*3600-1800)}

func init() {
	if l, err := time.LoadLocation("America/New_York"); err == nil {
		c20Zones = append(c20Zones, l)
	}
	if l, err := time.LoadLocation("Europe/Berlin"); err == nil {
		c20Zones = append(c20Zones, l)
	}
}

func genC20Event(r *rand.Rand, unixSafe bool) *c20Event {
	e := &c20Event{}
	var sec int64
	if unixSafe {
		sec = r.Int63n(9000000000) // years 1970..2255: UnixNano is defined and non-negative
	} else {
		sec = -62135596800 + r.Int63n(253402300799+62135596800) // years 1..9999
	}
	switch r.Intn(12) {
	case 0:
		sec = 0
		if !unixSafe {
			sec = -1
		}
	case 1:
		sec = 951782400 + int64(r.Intn(86400)) // 2000-02-29
	case 2:
		sec = 1704067199 + int64(r.Intn(3)) // year boundary
	}
	ns := r.Int63n(1e9)
	switch r.Intn(8) {
	case 0:
		ns = 0
	case 1:
		ns = 999999999
	case 2:
		ns = 1000
	}
	e.End = time.Unix(sec, ns).In(choose(r, c20Zones))
	var d time.Duration
	switch r.Intn(6) {
	case 0:
		d = 0
	case 1:
		d = time.Duration(r.Int63n(1e6))
	case 2:
		d = time.Duration(r.Int63n(int64(30 * 24 * time.Hour)))
	case 3:
		// the clock stepped back while the request was served: the end lies before the start
		d = -choose(r, []time.Duration{1500 * time.Millisecond, 500 * time.Millisecond, 400 * time.Microsecond, 1, time.Duration(r.Int63n(int64(time.Hour)))})
	default:
		d = time.Duration(r.Int63n(int64(10 * time.Second)))
	}
	e.Start = e.End.Add(-d)
	e.Method = choose(r, []string{"GET", "POST", "PURGE", "M-SEARCH"})
	e.URI = choose(r, []string{"/", "/a/b?x=1", "/%2F%20?q=%26", "*", "/ünï", "http://abs.test/x"})
	e.Proto = choose(r, []string{"HTTP/1.1", "HTTP/1.0", "HTTP/2.0"})
	e.Host = choose(r, []string{"foo.test", "foo.test:8080", "[::1]:80", ""})
	e.Remote = choose(r, []string{"1.2.3.4:80", "[::1]:8080", "[fe80::1%eth0]:1", "host:80", "9.9.9.9:65535"})
	e.Upstream = choose(r, []string{"1.2.3.4:80", "[::1]:80", "host:80", "host", "[::1]", "", "backend", "10.0.0.1", "a.b.c:0"})
	e.Status = 100 + r.Intn(900)
	switch r.Intn(6) {
	case 0:
		e.Size = choose(r, []int64{0, 1, 9, 10, 99, 100, math.MaxInt32, math.MaxInt32 + 1, math.MaxInt64, math.MaxInt64 - 1, 1e18, 999999999999999999, -1, math.MinInt64, math.MinInt64 + 1})
	case 1:
		e.Size = r.Int63()
	default:
		e.Size = int64(r.Intn(1 << 20))
	}
	e.ReqURL = choose(r, []string{"http://foo.test/a/b?x=1", "https://foo.test:8443/%2F?q=%26x", "http://foo.test/", "ws://foo.test/ws?a=b#frag"})
	e.UpURL = choose(r, []string{"http://1.2.3.4:80/a/b?x=1", "https://host/", "http://[::1]:80/x%20y?q", "http://backend"})
	e.Service = choose(r, []string{"svc-a", "svc b", ""})
	e.NoResponse = r.Intn(40) == 0
	e.Hdr = map[string]string{}
	if r.Intn(2) == 0 {
		e.Hdr["User-Agent"] = choose(r, []string{"curl/8", "Mozilla \"5.0\" $x", "ünï", ""})
	}
	if r.Intn(2) == 0 {
		e.Hdr["X-Foo-Bar"] = choose(r, []string{"1", "a b c", "%d %s", "$remote_addr"})
	}
	return e
}

// literals start with a character that cannot continue a field name
var c20Literals = []string{" ", " - ", "|", "\"", " [", "] ", "% ", " 100% ", "$ ", "ü ", "\t", ": ", "/", "#", "$$ ", "$", " $", "=$$", ""} // the last four: a dollar sign right in front of a field, two fields side by side

func c20IsField(tok string) bool {
	if strings.HasPrefix(tok, "$header.") {
		return true
	}
	for _, f := range logger.Fields {
		if f == tok {
			return true
		}
	}
	return false
}

// c20Render is the independent renderer: fmt/strconv/time.Format/net.SplitHostPort/net/url only.
// It returns the acceptable renderings of a token (more than one when the statement leaves room).
func c20Render(tok string, e *c20Event, ev *logger.Event) []string {
	t := e.End.UTC()
	d := e.End.Sub(e.Start)
	hp := func(addr string) (hosts []string, port string) {
		if addr == "" {
			return []string{""}, ""
		}
		h, p, err := net.SplitHostPort(addr)
		if err != nil {
			// no port: the host is the address itself, an IPv6 literal without its brackets (url.URL.Hostname)
			return []string{strings.Trim(addr, "[]")}, ""
		}
		return []string{h}, p // the standard library's host: "::1" for "[::1]:80"
	}
	switch {
	case strings.HasPrefix(tok, "$header."):
		return []string{ev.Request.Header.Get(tok[len("$header."):])}
	case !c20IsField(tok):
		return []string{tok}
	}
	switch tok {
	case "$remote_addr":
		return []string{e.Remote}
	case "$remote_host":
		h, _ := hp(e.Remote)
		return h
	case "$remote_port":
		_, p := hp(e.Remote)
		return []string{p}
	case "$request":
		return []string{fmt.Sprintf("%s %s %s", e.Method, e.URI, e.Proto)}
	case "$request_args":
		return []string{ev.RequestURL.RawQuery}
	case "$request_host":
		// the host the client asked for travels in the request URL (the request's own Host field is rewritten on
		// routes with a host option before the line is written)
		return []string{ev.RequestURL.Host}
	case "$request_method":
		return []string{e.Method}
	case "$request_scheme":
		return []string{ev.RequestURL.Scheme}
	case "$request_uri":
		return []string{e.URI}
	case "$request_url":
		return []string{ev.RequestURL.String()}
	case "$request_proto":
		return []string{e.Proto}
	case "$response_body_size":
		if e.NoResponse {
			return []string{""} // like the request fields without a request: nothing
		}
		return []string{strconv.FormatInt(e.Size, 10)}
	case "$response_status":
		if e.NoResponse {
			return []string{""}
		}
		return []string{strconv.Itoa(e.Status)}
	case "$response_time_ms":
		return []string{c20Seconds(d, time.Millisecond, 3)}
	case "$response_time_us":
		return []string{c20Seconds(d, time.Microsecond, 6)}
	case "$response_time_ns":
		return []string{c20Seconds(d, time.Nanosecond, 9)}
	case "$time_rfc3339":
		return []string{t.Format("2006-01-02T15:04:05Z")}
	case "$time_rfc3339_ms":
		return []string{t.Format("2006-01-02T15:04:05.000Z")}
	case "$time_rfc3339_us":
		return []string{t.Format("2006-01-02T15:04:05.000000Z")}
	case "$time_rfc3339_ns":
		return []string{t.Format("2006-01-02T15:04:05.000000000Z")}
	case "$time_unix_ms":
		return []string{strconv.FormatInt(t.UnixMilli(), 10)}
	case "$time_unix_us":
		return []string{strconv.FormatInt(t.UnixMicro(), 10)}
	case "$time_unix_ns":
		return []string{strconv.FormatInt(t.UnixNano(), 10)}
	case "$time_common":
		return []string{t.Format("02/Jan/2006:15:04:05 +0000")}
	case "$upstream_addr":
		return []string{e.Upstream}
	case "$upstream_host":
		h, _ := hp(e.Upstream)
		return h
	case "$upstream_port":
		_, p := hp(e.Upstream)
		return []string{p}
	case "$upstream_request_scheme":
		return []string{ev.UpstreamURL.Scheme}
	case "$upstream_request_uri":
		return []string{ev.UpstreamURL.RequestURI()}
	case "$upstream_request_url":
		return []string{ev.UpstreamURL.String()}
	case "$upstream_service":
		return []string{e.Service}
	}
	return nil
}

// c20Match checks that line is a concatenation of acceptable renderings of the tokens.
func c20Match(line string, alts [][]string) bool {
	if len(alts) == 0 {
		return line == ""
	}
	for _, a := range alts[0] {
		if strings.HasPrefix(line, a) && c20Match(line[len(a):], alts[1:]) {
			return true
		}
	}
	return false
}

// c20Seconds: a duration as seconds with a truncated fraction; a negative one carries one sign, in front.
func c20Seconds(d, unit time.Duration, digits int) string {
	sign := ""
	if d < 0 {
		sign, d = "-", -d
	}
	return fmt.Sprintf("%s%d.%0*d", sign, d/time.Second, digits, d%time.Second/unit)
}

func genC20Format(r *rand.Rand, unixSafe bool) []string {
	var toks []string
	if r.Intn(20) == 0 {
		// a single field and nothing else: the line may turn out empty, it is a line all the same
		return []string{choose(r, []string{"$header.Missing", "$header.Referer", "$request_args", "$upstream_service", "$header.User-Agent", "$upstream_port", "$remote_port"})}
	}
	n := 1 + r.Intn(8)
	toks = append(toks, choose(r, c20Literals))
	for i := 0; i < n; i++ {
		var f string
		for {
			f = choose(r, logger.Fields)
			if !unixSafe && f == "$time_unix_ns" { // Time.UnixNano is undefined outside 1678..2262; UnixMilli and UnixMicro are not
				continue
			}
			break
		}
		if r.Intn(6) == 0 {
			f = "$header." + choose(r, []string{"User-Agent", "X-Foo-Bar", "x-foo-bar", "Missing", "Referer"})
		}
		toks = append(toks, f, choose(r, c20Literals))
	}
	return toks
}

func c20Logger(c *ctx) {
	n := c.scale(c.pick(1500000, 30000000))
	c.R.Rule = "generated formats over logger.Fields, $header.<name> and literal text x generated events (End in years 1-9999 in any location incl. DST zones, durations 0-30 days and negative ones (a clock stepping back), sizes over the int64 boundary set incl. -1 and MinInt64, status 100-999, addresses with/without port, IPv6, empty); output must be exactly one newline-terminated line equal to an independent rendering with fmt/strconv/time.Format(UTC)/net.SplitHostPort/net/url; 32 goroutines share one logger; plus HTTPProxy.ServeHTTP with a logger over every field. non-trivial = event in a non-UTC location or an upstream address without port or size >= 2^31; distinct by (format,event)"
	// (a) single events
	parallel(c, n, func(r *rand.Rand, i int) {
		unixSafe := r.Intn(2) == 0
		e := genC20Event(r, unixSafe)
		toks := genC20Format(r, unixSafe)
		c20One(c, toks, e, i)
	})
	if c.Replay != "" {
		return
	}
	// (a') 32 goroutines share one logger
	c20Concurrent(c)
	// (b) through the proxy
	c20ViaProxy(c)
}

func c20One(c *ctx, toks []string, e *c20Event, i int) {
	c.R.Eval(1)
	format := strings.Join(toks, "")
	in := map[string]any{"Format": format, "Event": e}
	var buf bytes.Buffer
	l, err := logger.New(&buf, format)
	if err != nil {
		c.R.Violate("c20:valid-format-rejected", fmt.Sprintf("format %q: %v", format, err), in)
		return
	}
	ev := e.event()
	if p := safely(func() { l.Log(ev) }); p != "" {
		sig := "c20:log-panic"
		if _, _, err := net.SplitHostPort(e.Upstream); err != nil && (strings.Contains(format, "$upstream_host") || strings.Contains(format, "$upstream_port")) {
			sig += ":address-without-port"
		}
		c.R.Violate(sig, fmt.Sprintf("Log panicked: %s (format %q upstream %q)", p, format, e.Upstream), in)
		return
	}
	out := buf.String()
	if e.End.Location() != time.UTC || !strings.Contains(e.Upstream, ":") || e.Size >= 1<<31 {
		c.R.Nontrivial(format + fmt.Sprint(*e))
	}
	if !strings.HasSuffix(out, "\n") || strings.Count(out, "\n") != 1 {
		c.R.Violate("c20:not-one-line", fmt.Sprintf("output %q is not exactly one line", out), in)
		return
	}
	alts := make([][]string, len(toks))
	for k, t := range toks {
		alts[k] = c20Render(t, e, ev)
		if alts[k] == nil {
			c.R.Inconcl("reference renderer does not know field %s", t)
			return
		}
	}
	if !c20Match(strings.TrimSuffix(out, "\n"), alts) {
		sig := "c20:line-differs"
		// name the first field that differs to make the signature specific
		for k, t := range toks {
			if !c20IsField(t) {
				continue
			}
			var b bytes.Buffer
			l1, _ := logger.New(&b, "|"+t+"|")
			if safely(func() { l1.Log(ev) }) == "" {
				if !c20Match(strings.TrimSuffix(b.String(), "\n"), [][]string{{"|"}, alts[k], {"|"}}) {
					sig += ":" + t
					if strings.HasPrefix(t, "$time_") && e.End.Location() != time.UTC {
						sig += ":non-utc-event"
					}
					break
				}
			}
		}
		var want []string
		for _, a := range alts {
			want = append(want, a[0])
		}
		c.R.Violate(sig, fmt.Sprintf("format %q\n got  %q\n want %q", format, out, strings.Join(want, "")+"\n"), in)
		return
	}
	if c.R.WantSample() && i%7 == 0 {
		c.R.Sample(map[string]any{"format": format, "line": out})
	}
}

func c20Concurrent(c *ctx) {
	var buf bytes.Buffer
	toks := []string{"> ", "$remote_addr", " ", "$request", " ", "$response_status", " ", "$response_body_size", " ", "$header.X-Foo-Bar", " ", "$time_rfc3339_ns", " ", "$upstream_request_url", " <"}
	l, err := logger.New(&buf, strings.Join(toks, ""))
	if err != nil {
		c.R.Inconcl("concurrent logger: %v", err)
		return
	}
	const G, per = 32, 400
	want := map[string]int{}
	var mu sync.Mutex
	var wg sync.WaitGroup
	for g := 0; g < G; g++ {
		wg.Add(1)
		go func(g int) {
			defer wg.Done()
			r := c.rng(int64(9000 + g))
			for i := 0; i < per; i++ {
				e := genC20Event(r, true)
				e.Remote = fmt.Sprintf("10.%d.%d.1:%d", g, i%250, 1000+i)
				e.Hdr["X-Foo-Bar"] = strings.Repeat(fmt.Sprintf("g%di%d-", g, i), 1+r.Intn(60)) // some lines exceed the pooled buffer size
				ev := e.event()
				var line strings.Builder
				for _, t := range toks {
					line.WriteString(c20Render(t, e, ev)[0])
				}
				mu.Lock()
				want[line.String()]++
				mu.Unlock()
				l.Log(ev)
				c.R.Eval(1)
			}
		}(g)
	}
	wg.Wait()
	lines := strings.Split(strings.TrimSuffix(buf.String(), "\n"), "\n")
	if len(lines) != G*per {
		c.R.Violate("c20:concurrent-line-count", fmt.Sprintf("%d lines for %d events", len(lines), G*per), nil)
	}
	for _, ln := range lines {
		if want[ln] == 0 {
			c.R.Violate("c20:concurrent-line-corrupt", fmt.Sprintf("line is not one of the expected lines (interleaved or altered): %.300q", ln), nil)
			break
		}
		want[ln]--
	}
	c.R.Count("concurrent_lines", int64(len(lines)))
}

type c20Stub struct{}

func (c20Stub) RoundTrip(r *http.Request) (*http.Response, error) {
	body := "hello from " + r.URL.Host
	return &http.Response{StatusCode: 203, Header: http.Header{"X-Up": {"1"}, "Content-Type": {"text/plain"}}, Body: ioNop(body), ContentLength: int64(len(body)), Request: r, Proto: "HTTP/1.1", ProtoMajor: 1, ProtoMinor: 1}, nil
}

func c20ViaProxy(c *ctx) {
	format := ""
	for _, f := range logger.Fields {
		format += f + "|"
	}
	format += "$header.User-Agent|"
	targets := []string{"http://1.2.3.4:8080/", "http://backend/", "http://backend", "http://[::1]:80/", "http://[::1]/", "https://up.test/", "http://up.test:80/x?y=1"}
	r := c.rng(4242)
	re := regexp.MustCompile(`\n`)
	for i := 0; i < c.pick(2000, 40000); i++ {
		tu := choose(r, targets)
		t, err := newTable(fmt.Sprintf("route add svc log.test/ %s", tu))
		if err != nil {
			c.R.Inconcl("table: %v", err)
			return
		}
		var buf bytes.Buffer
		l, err := logger.New(&buf, format)
		if err != nil {
			c.R.Violate("c20:valid-format-rejected", err.Error(), nil)
			return
		}
		gc := route.NewGlobCache(10)
		hp := &proxy.HTTPProxy{Config: config.Proxy{}, Transport: c20Stub{}, Logger: l,
			Lookup: func(r *http.Request) *route.Target {
				return t.Lookup(r, "", route.Picker["rr"], route.Matcher["prefix"], gc, false)
			}}
		req := httptest.NewRequest(choose(r, []string{"GET", "POST"}), "http://log.test/p"+strconv.Itoa(i)+"?q="+strconv.Itoa(i), nil)
		req.RemoteAddr = choose(r, []string{"10.1.1.1:5555", "[::1]:5555"})
		rec := httptest.NewRecorder()
		c.R.Eval(1)
		in := map[string]any{"target": tu, "remote": req.RemoteAddr}
		if p := safely(func() { hp.ServeHTTP(rec, req) }); p != "" {
			sig := "c20:servehttp-panic"
			if u, _ := url.Parse(tu); u != nil && u.Port() == "" {
				sig += ":target-without-port"
			}
			c.R.Violate(sig, fmt.Sprintf("ServeHTTP with access logging panicked for target %s: %s", tu, p), in)
			continue
		}
		u, _ := url.Parse(tu)
		if rec.Code != 203 || rec.Body.String() != "hello from "+u.Host || rec.Header().Get("X-Up") != "1" {
			c.R.Violate("c20:response-altered", fmt.Sprintf("target %s: got %d %q", tu, rec.Code, rec.Body.String()), in)
			continue
		}
		if n := len(re.FindAllString(buf.String(), -1)); n != 1 {
			c.R.Violate("c20:proxy-not-one-line", fmt.Sprintf("target %s: %d log lines: %q", tu, n, buf.String()), in)
			continue
		}
		if u.Port() == "" {
			c.R.Nontrivial("proxy " + tu + req.RemoteAddr)
		}
		// spot check a few fields of the proxied request's line
		f := strings.Split(buf.String(), "|")
		idx := map[string]int{}
		for k, name := range logger.Fields {
			idx[name] = k
		}
		if got := f[idx["$upstream_addr"]]; got != u.Host {
			c.R.Violate("c20:proxy-field", fmt.Sprintf("$upstream_addr %q want %q", got, u.Host), in)
		}
		if got := f[idx["$response_status"]]; got != "203" {
			c.R.Violate("c20:proxy-field", fmt.Sprintf("$response_status %q", got), in)
		}
		if got := f[idx["$response_body_size"]]; got != strconv.Itoa(len("hello from "+u.Host)) {
			c.R.Violate("c20:proxy-field", fmt.Sprintf("$response_body_size %q", got), in)
		}
		if got := f[idx["$request_uri"]]; got != req.RequestURI {
			c.R.Violate("c20:proxy-field", fmt.Sprintf("$request_uri %q want %q", got, req.RequestURI), in)
		}
	}
}

type nopCloser struct{ *strings.Reader }

func (nopCloser) Close() error { return nil }
func ioNop(s string) nopCloser { return nopCloser{strings.NewReader(s)} }

// c20Format: the hand-optimised formatters against their standard library equivalents.
func c20Format(c *ctx) {
	c.R.Rule = "uint16base16 vs fmt %#04x on all 65536 values; i32toa vs strconv.Itoa on boundaries + random sample (thorough, plain build: all 2^32 values); uuid.ToString vs fmt-built canonical form on random 24-byte arrays; uuid.NewUUID format/uniqueness over 32 goroutines; logger integer rendering over int64 boundaries. non-trivial = value whose rendering has a leading zero nibble / negative / boundary; distinct by value"
	for v := 0; v < 65536; v++ {
		c.R.Eval(1)
		if got, want := proxy.VerifUint16Base16(uint16(v)), fmt.Sprintf("0x%04x", v); got != want {
			c.R.Violate("c20:uint16base16", fmt.Sprintf("uint16base16(%d) = %q, want %q", v, got, want), map[string]any{"v": v})
			break
		}
		if v < 4096 {
			c.R.Nontrivial("u16:" + strconv.Itoa(v))
		}
	}
	c.R.Count("uint16_values_exhaustive", 65536)
	bounds := []int64{0, 1, -1, 9, 10, -9, -10, 99, 100, 999999999, 1000000000, -1000000000, math.MaxInt32, math.MaxInt32 - 1, math.MinInt32, math.MinInt32 + 1}
	chk := func(v int32) bool {
		if got, want := proxy.VerifI32toa(v), strconv.Itoa(int(v)); got != want {
			c.R.Violate("c20:i32toa", fmt.Sprintf("i32toa(%d) = %q, want %q", v, got, want), map[string]any{"v": v})
			return false
		}
		return true
	}
	for _, b := range bounds {
		c.R.Eval(1)
		c.R.Nontrivial("i32:" + strconv.FormatInt(b, 10))
		chk(int32(b))
	}
	if c.thorough() && c.Scale == 1 {
		// all 2^32 values in 16 shards
		var wg sync.WaitGroup
		for s := 0; s < 16; s++ {
			wg.Add(1)
			go func(s int) {
				defer wg.Done()
				lo := int64(math.MinInt32) + int64(s)*(1<<28)
				for v := lo; v < lo+(1<<28); v++ {
					if !chk(int32(v)) {
						return
					}
				}
				c.R.Eval(1 << 28)
			}(s)
		}
		wg.Wait()
		c.R.Count("i32toa_values_exhaustive", 1<<32)
		c.R.Exhaustive = true
	} else {
		parallel(c, c.scale(c.pick(4000000, 20000000)), func(r *rand.Rand, i int) {
			c.R.Eval(1)
			v := int32(r.Uint32())
			if i%3 == 0 {
				v = int32(r.Intn(200000) - 100000)
			}
			chk(v)
		})
	}
	// uuid.ToString
	parallel(c, c.scale(c.pick(500000, 5000000)), func(r *rand.Rand, i int) {
		var u [24]byte
		r.Read(u[:])
		if i%50 == 0 {
			u = [24]byte{}
		}
		c.R.Eval(1)
		want := fmt.Sprintf("%x-%x-%x-%x-%x", u[0:4], u[4:6], u[6:8], u[8:10], u[10:16])
		if got := uuid.ToString(u); got != want {
			c.R.Violate("c20:uuid-tostring", fmt.Sprintf("ToString(%x) = %q, want %q", u, got, want), map[string]any{"u": fmt.Sprintf("%x", u)})
		}
	})
	// uuid.NewUUID: format and uniqueness across goroutines
	reUUID := regexp.MustCompile(`^[0-9a-f]{8}-[0-9a-f]{4}-[0-9a-f]{4}-[0-9a-f]{4}-[0-9a-f]{12}$`)
	seen := sync.Map{}
	var wg sync.WaitGroup
	for g := 0; g < 32; g++ {
		wg.Add(1)
		go func() {
			defer wg.Done()
			for i := 0; i < c.pick(3000, 30000); i++ {
				id := uuid.NewUUID()
				c.R.Eval(1)
				if !reUUID.MatchString(id) {
					c.R.Violate("c20:uuid-format", fmt.Sprintf("NewUUID() = %q", id), nil)
					return
				}
				if _, dup := seen.LoadOrStore(id, true); dup {
					c.R.Violate("c20:uuid-duplicate", fmt.Sprintf("NewUUID() returned %q twice", id), nil)
					return
				}
			}
		}()
	}
	wg.Wait()
	// logger integer rendering over the int64 boundary set
	r := c.rng(5)
	for i := 0; i < c.pick(200000, 2000000); i++ {
		var v int64
		switch i % 4 {
		case 0:
			v = choose(r, []int64{0, 1, 9, 10, math.MaxInt64, math.MaxInt64 - 1, 1<<32 - 1, 1 << 32, 1<<53 + 1, 999999999999999999, 1000000000000000000})
		case 1:
			v = r.Int63()
		default:
			v = r.Int63n(1 << uint(1+r.Intn(62)))
		}
		var buf bytes.Buffer
		l, _ := logger.New(&buf, "=$response_body_size=")
		l.Log(&logger.Event{Response: &http.Response{ContentLength: v}})
		c.R.Eval(1)
		if got, want := buf.String(), "="+strconv.FormatInt(v, 10)+"=\n"; got != want {
			c.R.Violate("c20:logger-int", fmt.Sprintf("$response_body_size for %d rendered %q", v, got), map[string]any{"v": v})
			break
		}
	}
	c.R.Sample(map[string]any{"uint16base16(255)": proxy.VerifUint16Base16(255), "i32toa(-2147483648)": proxy.VerifI32toa(math.MinInt32)})
}
