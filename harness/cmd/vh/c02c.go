package main

import (
	"bytes"
	"crypto/tls"
	"encoding/json"
	"fmt"
	"math"
	"math/rand"
	"net/http"
	"net/url"
	"regexp"
	"runtime/debug"
	"strings"
	"time"

	"github.com/fabiolb/fabio/config"
	"github.com/fabiolb/fabio/metrics"
	"github.com/fabiolb/fabio/route"
)

func init() { register("c02-crash", "C02", c02Crash) }

var c02HostileWeights = []string{"Inf", "-Inf", "+Inf", "NaN", "inf", "nan", "1e308", "1.8e308", "1e-310", "5e-324", "0x1p-1074", "-0", "1e-5",
	"1e309", "-1e308", "0.00000000001", "1e-320", "9999999999", "0x1p1023", "1e-4", "4.9e-324", "2.2250738585072014e-308", "1e-9", "3e-5", "1", "0.5", "abc", "", "1_0", "1e", "."}
var c02HostileHosts = []string{"[a", "a]", "{a,b}.com", "{a", "a\\", "\\", "*", "**", "?", "[!a].com", "[a-", "[]", "[^]", "{,}", "a.com:80", ":80", ":", "a.com:", "*.*", "*:*",
	"[::1]:80", "[::1", "xn--nxasmq6b.com", "a..com", ".", "%zz", "a b", "a\tb", "[a-z].com", "{a,{b,c}}.com", "[", "{", "}", "]", "*[", "a.com\\", "\\*", "[\\]", "[a\\]"}
var c02HostilePaths = []string{"/", "", "/[", "/{a", "/a\\", "/*", "/**", "/a/[b-", "/%zz", "/a b", "/\\", "/{a,b}", "/[!a]", "/a]", "/?", "//", "/./..", "/{", "/[]", "/[a", "/\\["}
var c02HostileDsts = []string{"http://a:80/", "http://[::1", "%zz", "http://a b/", "http://a:99999/", "tcp://:80", ":", "http://", "//", "http://[fe80::1%25en0]:80/", "http://a/%zz",
	"https://$host$path", "http://a:b/", "http://u:p@a/", "\x7f", "http://a/?q=%zz", "ftp://a", "http://a:80", "a:80", "1.2.3.4:80", "http://%41:80/", "http://[::1]:80/$path",
	"http://[fe80::1%25zon\u00e9]:8080/", "http://[fe80::1%25z\u00fc]/x"} // the last two parse, but their String() does not parse again

func c02GenText(r *rand.Rand) string {
	var lines []string
	n := 1 + r.Intn(6)
	for i := 0; i < n; i++ {
		svc := choose(r, []string{"s1", "s2", "s\x00", "tags", "weight", "ß", strings.Repeat("x", 1+r.Intn(300))})
		host := choose(r, c05Hosts)
		if r.Intn(3) == 0 {
			host = choose(r, c02HostileHosts)
		}
		path := choose(r, c05Paths)
		if r.Intn(3) == 0 {
			path = choose(r, c02HostilePaths)
		}
		dst := choose(r, c05Dsts)
		if r.Intn(4) == 0 {
			dst = choose(r, c02HostileDsts)
		}
		w := ""
		if r.Intn(2) == 0 {
			w = " weight " + choose(r, c02HostileWeights)
		}
		tags := ""
		if r.Intn(3) == 0 {
			tags = ` tags "` + choose(r, []string{"a", "a,b", ",", " a , b ", "", "a\tb", "é"}) + `"`
		}
		opts := ""
		if r.Intn(3) == 0 {
			opts = ` opts "` + choose(r, []string{"strip=/a", "redirect=301", "redirect=abc", "redirect=99999999999999999999", "allow=ip:1.2.3.4/33", "deny=ip:::1", "allow=ip:10.0.0.0/8,ip:fe80::/10",
				"allow=", "allow=foo", "allow=ip:1.2.3.4 deny=ip:1.2.3.4", "host=dst proto=https", "host=a.com proto=https tlsskipverify=true", "=", "a==b", "auth=x", "pxyproto=true", "weight=1", "strip="}) + `"`
		}
		switch k := r.Intn(12); {
		case k < 7:
			lines = append(lines, fmt.Sprintf("route add %s %s%s %s%s%s%s", svc, host, path, dst, w, tags, opts))
		case k < 9:
			lines = append(lines, choose(r, []string{
				fmt.Sprintf("route del %s", svc),
				fmt.Sprintf("route del %s %s%s", svc, host, path),
				fmt.Sprintf("route del %s %s%s %s", svc, host, path, dst),
				fmt.Sprintf("route del %s%s", svc, tags),
				fmt.Sprintf("route del%s", tags),
			}))
		case k < 11:
			lines = append(lines, choose(r, []string{
				fmt.Sprintf("route weight %s %s%s weight %s%s", svc, host, path, choose(r, c02HostileWeights), tags),
				fmt.Sprintf("route weight %s%s weight %s%s", host, path, choose(r, c02HostileWeights), tags),
			}))
		default:
			lines = append(lines, choose(r, []string{"", "# c", "// c", "route", "route add", "route  add  a  b  c", "\troute add a b c\t", "route add a b c weight", "route add a b c tags \"", "bogus", "route\x00add a b c", "route add a b\r", "\xff\xfe"}))
		}
	}
	// many targets on one route: dynamic ones first (cheap), then fixed weights that force a full ring
	if r.Intn(4000) == 0 {
		k := 500 + r.Intn(1500)
		fw := ""
		if r.Intn(2) == 0 {
			k = 200 + r.Intn(800)
			fw = choose(r, []string{" weight 0.00001", " weight 1e-9", " weight 0.5"})
		}
		for i := 0; i < k; i++ {
			lines = append(lines, fmt.Sprintf("route add big big.test/ http://10.%d.%d.%d:80/%s", i/65536, (i/256)%256, i%256, fw))
		}
		lines = append(lines, "route add big big.test/ http://10.99.0.1:80/ weight "+choose(r, []string{"0.3", "1e-9", "0.99999", "5"}))
	}
	if r.Intn(300) == 0 {
		// one very long line (longer than a line scanner's default 64 KiB token limit)
		n := choose(r, []int{60000, 65530, 65536, 70000, 200000})
		lines = append(lines, choose(r, []string{
			"# " + strings.Repeat("c", n),
			"route add " + strings.Repeat("s", n) + " long.test/ http://10.0.0.1:80/",
			"route add svc long.test/ http://10.0.0.1:80/ tags \"" + strings.Repeat("t,", n/2) + "x\"",
		}))
	}
	text := strings.Join(lines, choose(r, []string{"\n", "\n", "\n", "\r\n", "\n\n"}))
	sentinel := r.Intn(4) > 0
	// byte mutations
	if r.Intn(3) == 0 && len(text) > 0 && len(text) < 4000 {
		b := []byte(text)
		for m := r.Intn(4); m >= 0; m-- {
			switch r.Intn(4) {
			case 0:
				b[r.Intn(len(b))] = byte(r.Intn(256))
			case 1:
				i := r.Intn(len(b))
				b = append(b[:i], b[i+1:]...)
			case 2:
				i := r.Intn(len(b) + 1)
				b = append(b[:i], append([]byte{choose(r, []byte{'"', ' ', '\n', '\\', '[', '{', '*', 0, 0xff, '%', '$'})}, b[i:]...)...)
			case 3:
				i, j := r.Intn(len(b)), r.Intn(len(b))
				b[i], b[j] = b[j], b[i]
			}
			if len(b) == 0 {
				break
			}
		}
		text = string(b)
	}
	if sentinel {
		text += c02Sentinel
	}
	return text
}

const c02Sentinel = "\nroute add sentinel sentinel.test/ http://10.9.9.9:80/"

var reFabioFrame = regexp.MustCompile(`github\.com/fabiolb/fabio/([\w/\.\(\)\*]+?)\(`)

func panicSig(msg string, stack []byte) string {
	cls := msg
	for _, k := range []string{"makeslice", "divide by zero", "index out of range", "nil pointer", "slice bounds", "regexp", "glob", "unexpected"} {
		if strings.Contains(msg, k) {
			cls = k
			break
		}
	}
	if len(cls) > 40 {
		cls = cls[:40]
	}
	frame := "?"
	for _, m := range reFabioFrame.FindAllStringSubmatch(string(stack), -1) {
		frame = m[1]
		break
	}
	return cls + "@" + frame
}

// guarded runs f; on panic it records a violation and returns false.
func guarded(c *ctx, stage string, in any, f func()) (ok bool) {
	defer func() {
		if e := recover(); e != nil {
			st := debug.Stack()
			c.R.Violate("c02c:panic:"+stage+":"+panicSig(fmt.Sprint(e), st), fmt.Sprintf("panic in %s: %v\n%s", stage, e, trimStack(st)), in)
			ok = false
		}
	}()
	f()
	return true
}

func trimStack(st []byte) string {
	s := string(st)
	if len(s) > 2500 {
		s = s[:2500]
	}
	return s
}

func c02Exercise(c *ctx, t route.Table, in any, r *rand.Rand) bool {
	hosts := []string{"a.com", "A.COM:80", "x.y.org", "", "big.test", "zzz", "[::1]:80", "c.net:8080", "*", "["}
	for h := range t {
		if len(hosts) < 24 {
			hosts = append(hosts, h)
		}
	}
	gc := route.NewGlobCache(4)
	for _, mn := range []string{"prefix", "iprefix", "glob"} {
		for _, noglob := range []bool{false, true} {
			for _, pn := range []string{"rr", "rnd"} {
				for _, h := range hosts {
					req := &http.Request{Host: h, URL: &url.URL{Path: choose(r, []string{"/", "/a/b", "/A", "", "/c/x", "/["})}, Header: http.Header{}}
					if r.Intn(3) == 0 {
						req.TLS = &tls.ConnectionState{}
					}
					if r.Intn(5) == 0 {
						req.Header.Set("X-Forwarded-Proto", "https")
					}
					if !guarded(c, "Lookup", in, func() { t.Lookup(req, "", route.Picker[pn], route.Matcher[mn], gc, noglob) }) {
						return false
					}
				}
			}
		}
	}
	for _, h := range hosts {
		if !guarded(c, "LookupHost", in, func() { t.LookupHost(h, route.Picker["rr"]) }) {
			return false
		}
	}
	var s string
	if !guarded(c, "String", in, func() { s = t.String() }) {
		return false
	}
	if !guarded(c, "Dump", in, func() { _ = t.Dump() }) {
		return false
	}
	if !guarded(c, "NewTable(String())", in, func() { newTable(s) }) {
		return false
	}
	// what the proxies do with a target they picked: count and time through the target's metrics
	return guarded(c, "target metrics", in, func() {
		n := 0
		for _, rs := range t {
			for _, rt := range rs {
				for _, tg := range rt.Targets {
					if n++; n > 50 {
						return
					}
					if tg.Timer != nil {
						tg.Timer.Observe(0.01)
					}
					if tg.RxCounter != nil {
						tg.RxCounter.Add(1)
					}
					if tg.TxCounter != nil {
						tg.TxCounter.Add(1)
					}
				}
			}
		}
	})
}

func c02Crash(c *ctx) {
	total := c.scale(c.pick(400000, 8000000))
	per := 3000
	nb := (total + per - 1) / per
	c.R.Rule = "grammar-based + byte-mutated route texts (hostile weights Inf/NaN/denormal/huge, glob metacharacters, bad URLs, >10000 targets, control bytes) through NewTable and NewTableCustom; every accepted table is exercised with Lookup (3 matchers x glob on/off x rr/rnd), LookupHost, String, Dump, NewTable(String()); any panic or process death is a violation. child process per batch. non-trivial = text accepted by NewTable (table was exercised); distinct by text"
	runBatches(c, "c02-crash", nb, 0, 20*time.Minute, func(c *ctx, batch int) {
		li := newLastInput(c, batch)
		r := c.rng(int64(50000 + batch))
		// the metrics back end is part of what a route text runs into: every fourth batch with flat names (statsd),
		// every fourth with prometheus labels
		switch batch % 4 {
		case 1:
			if p, err := metrics.Initialize(&config.Metrics{Target: "statsd_raw", StatsDAddr: "127.0.0.1:9", Interval: time.Hour, Names: metrics.DefaultNames}); err == nil {
				route.SetMetricsProvider(p)
				c.R.Count("batches_with_statsd_metrics", 1)
			}
		case 2:
			if p, err := metrics.Initialize(&config.Metrics{Target: "prometheus", Interval: time.Hour, Names: metrics.DefaultNames}); err == nil {
				route.SetMetricsProvider(p)
				c.R.Count("batches_with_prometheus_metrics", 1)
			}
		}
		one := func(text string) {
			t0 := time.Now()
			defer func() {
				if d := time.Since(t0); d > 5*time.Second {
					c.R.Count("slow_texts", 1)
					c.R.Note("slow text (%s): %.300q", d, text)
				}
			}()
			c.R.Eval(1)
			li.Set([]byte(text))
			in := map[string]any{"Text": text}
			var t route.Table
			var err error
			if !guarded(c, "NewTable", in, func() { t, err = newTable(text) }) {
				return
			}
			if err == nil && strings.HasSuffix(text, c02Sentinel) {
				// an accepted text is applied completely: its last command must be in the table
				if rs := t["sentinel.test"]; len(rs) == 0 {
					c.R.Violate("c02c:accepted-text-truncated", fmt.Sprintf("NewTable accepted a %d byte text but the route of its last line is missing (silently truncated configuration)", len(text)), in)
					return
				}
				c.R.Count("sentinel_checked", 1)
			}
			if err != nil {
				c.R.Count("rejected", 1)
			} else {
				c.R.Count("accepted", 1)
				c.R.Nontrivial(text)
				if len(text) < 300 && c.R.WantSample() {
					c.R.Sample(map[string]any{"accepted_text": text})
				}
				if !c02Exercise(c, t, in, r) {
					return
				}
			}
			// the custom backend path: the same commands as []RouteDef (as decoded from JSON)
			var defs []*route.RouteDef
			if !guarded(c, "Parse", in, func() { defs, _ = route.Parse(bytes.NewBufferString(text)) }) {
				return
			}
			if len(defs) == 0 {
				return
			}
			ds := make([]route.RouteDef, 0, len(defs))
			for _, d := range defs {
				dd := *d
				if r.Intn(4) == 0 {
					dd.Weight = choose(r, []float64{1e308, 1.7976931348623157e308, 5e-324, 1e-310, 1e-5, -1, 0, 2.5, 1e-320})
				}
				if math.IsNaN(dd.Weight) || math.IsInf(dd.Weight, 0) {
					continue // JSON cannot carry these
				}
				ds = append(ds, dd)
			}
			js, jerr := json.Marshal(ds)
			if jerr != nil {
				return
			}
			var back []route.RouteDef
			if json.Unmarshal(js, &back) != nil {
				return
			}
			cin := map[string]any{"Text": text, "DefsJSON": string(js)}
			li.Set(js)
			var tc route.Table
			if !guarded(c, "NewTableCustom", cin, func() { tc, err = route.NewTableCustom(&back) }) {
				return
			}
			c.R.Count("custom_tables", 1)
			if err == nil && tc != nil {
				c02Exercise(c, tc, cin, r)
			}
		}
		if c.Replay != "" {
			var in struct{ Text string }
			loadReplay(c, &in)
			one(in.Text)
			return
		}
		if batch == 0 && c.thorough() {
			// one route with more targets than ring slots
			var b strings.Builder
			for i := 0; i < 10050; i++ {
				fmt.Fprintf(&b, "route add big big.test/ http://10.%d.%d.%d:80/\n", i/65536, (i/256)%256, i%256)
			}
			b.WriteString("route add big big.test/ http://10.99.0.1:80/ weight 0.3\nroute add big big.test/ http://10.99.0.2:80/ weight 0.00001\n")
			one(b.String())
		}
		n := per
		if batch == nb-1 {
			n = total - per*(nb-1)
		}
		for i := 0; i < n; i++ {
			one(c02GenText(r))
		}
	})
}
