package main

import (
	"bytes"
	"crypto/ecdsa"
	"crypto/elliptic"
	crand "crypto/rand"
	"crypto/tls"
	"crypto/x509"
	"crypto/x509/pkix"
	"encoding/pem"
	"fmt"
	"log"
	"math/big"
	"math/rand"
	"net"
	"net/http"
	"os"
	"path/filepath"
	"sort"
	"strings"
	"sync"
	"sync/atomic"
	"time"

	"github.com/anishathalye/porcupine"
	"github.com/fabiolb/fabio/cert"
)

func init() {
	register("c11-select", "C11", c11Select)
	register("c11-sources", "C11", c11Sources)
}

type c11Cert struct {
	File            string // file name the loader would sort by
	CN              string
	SANs            []string
	Serial          string
	TLS             tls.Certificate
	CertPEM, KeyPEM []byte
}

func c11Make(file, cn string, sans ...string) *c11Cert {
	key, _ := ecdsa.GenerateKey(elliptic.P256(), crand.Reader)
	serial, _ := crand.Int(crand.Reader, big.NewInt(1<<62))
	tmpl := &x509.Certificate{SerialNumber: serial, Subject: pkix.Name{CommonName: cn}, DNSNames: sans,
		NotBefore: time.Now().Add(-time.Hour), NotAfter: time.Now().Add(24 * time.Hour),
		KeyUsage: x509.KeyUsageDigitalSignature, ExtKeyUsage: []x509.ExtKeyUsage{x509.ExtKeyUsageServerAuth}, BasicConstraintsValid: true}
	der, _ := x509.CreateCertificate(crand.Reader, tmpl, tmpl, &key.PublicKey, key)
	kb, _ := x509.MarshalECPrivateKey(key)
	c := &c11Cert{File: file, CN: cn, SANs: sans, Serial: serial.String()}
	c.CertPEM = pem.EncodeToMemory(&pem.Block{Type: "CERTIFICATE", Bytes: der})
	c.KeyPEM = pem.EncodeToMemory(&pem.Block{Type: "EC PRIVATE KEY", Bytes: kb})
	c.TLS, _ = tls.X509KeyPair(c.CertPEM, c.KeyPEM)
	return c
}

type c11Set []*c11Cert // in loader order (sorted by file name)

func (s c11Set) tls() []tls.Certificate {
	var out []tls.Certificate
	for _, c := range s {
		out = append(out, c.TLS)
	}
	return out
}

// c11Ref: exact name, else a wildcard replacing the left-most label, else the first certificate (nil when strict).
func c11Ref(s c11Set, serverName string, strict bool) *c11Cert {
	if len(s) == 0 {
		return nil
	}
	name := strings.TrimRight(strings.ToLower(serverName), ".")
	names := func(c *c11Cert) []string {
		var out []string
		for _, n := range append([]string{c.CN}, c.SANs...) {
			out = append(out, strings.ToLower(n))
		}
		return out
	}
	var exact, wild []*c11Cert
	wc := ""
	if i := strings.Index(name, "."); i >= 0 {
		wc = "*" + name[i:]
	}
	for _, c := range s {
		for _, n := range names(c) {
			if n == name && name != "" {
				exact = append(exact, c)
			}
			if wc != "" && n == wc {
				wild = append(wild, c)
			}
		}
	}
	switch {
	case len(exact) > 0:
		return exact[len(exact)-1] // overlapping names: any holder is acceptable, see c11Acceptable
	case len(wild) > 0:
		return wild[len(wild)-1]
	case strict:
		return nil
	}
	return s[0]
}

// c11Acceptable lists every certificate the statement allows (several certificates may carry the same name).
func c11Acceptable(s c11Set, serverName string, strict bool) map[string]bool {
	out := map[string]bool{}
	name := strings.TrimRight(strings.ToLower(serverName), ".")
	wc := ""
	if i := strings.Index(name, "."); i >= 0 {
		wc = "*" + name[i:]
	}
	has := func(c *c11Cert, n string) bool {
		if n == "" {
			return false
		}
		for _, x := range append([]string{c.CN}, c.SANs...) {
			if strings.ToLower(x) == n {
				return true
			}
		}
		return false
	}
	for _, c := range s {
		if has(c, name) {
			out[c.Serial] = true
		}
	}
	if len(out) == 0 {
		for _, c := range s {
			if has(c, wc) {
				out[c.Serial] = true
			}
		}
	}
	if len(out) == 0 && !strict && len(s) > 0 {
		out[s[0].Serial] = true
	}
	return out
}

type c11Src struct {
	ch chan []tls.Certificate
}

func (s *c11Src) Certificates() chan []tls.Certificate   { return s.ch }
func (s *c11Src) LoadClientCAs() (*x509.CertPool, error) { return nil, nil }

// c11Handshake performs a real handshake against cfg and returns the serial of the presented leaf ("" if none).
func c11Handshake(cfg *tls.Config, serverName string, maxVer uint16) (serial string, err error) {
	cl, sv := net.Pipe()
	defer cl.Close()
	done := make(chan struct{})
	go func() {
		defer close(done)
		s := tls.Server(sv, cfg)
		s.SetDeadline(time.Now().Add(10 * time.Second))
		s.Handshake()
		sv.Close()
	}()
	c := tls.Client(cl, &tls.Config{ServerName: serverName, InsecureSkipVerify: true, MaxVersion: maxVer})
	c.SetDeadline(time.Now().Add(10 * time.Second))
	err = c.Handshake()
	if err == nil {
		if pcs := c.ConnectionState().PeerCertificates; len(pcs) > 0 {
			serial = pcs[0].SerialNumber.String()
		}
	}
	cl.Close()
	<-done
	return
}

var c11Names = []string{"a.x.test", "b.x.test", "x.test", "deep.a.x.test", "c.y.test", "y.test", "other.org", "z.x.test"}

func genC11Set(r *rand.Rand, tag string) c11Set {
	n := 1 + r.Intn(4)
	var s c11Set
	pool := []string{"a.x.test", "b.x.test", "x.test", "*.x.test", "*.a.x.test", "c.y.test", "*.y.test", "y.test", "other.org"}
	if r.Intn(5) == 0 {
		// certificates whose names are written with capitals: DNS names compare without regard to case
		pool = []string{"A.x.Test", "b.x.test", "X.TEST", "*.X.test", "*.a.x.test", "C.Y.test", "*.Y.TEST", "y.test", "Other.ORG"}
	}
	for i := 0; i < n; i++ {
		cn := choose(r, pool)
		sans := subset(r, pool, 3)
		if r.Intn(4) == 0 {
			cn = ""
			if len(sans) == 0 {
				sans = []string{choose(r, pool)}
			}
		}
		s = append(s, c11Make(fmt.Sprintf("%s-%02d-cert.pem", tag, i), cn, sans...))
	}
	return s
}

func c11Select(c *ctx) {
	c.R.Rule = "certificate sets generated at run time (ECDSA P-256; CN/SAN lists with exact names, *.x.test wildcards, overlapping names) behind cert.TLSConfig with a fake source; (a) real handshakes (TLS 1.2/1.3) and direct GetCertificate calls for server names in any letter case, trailing dots, absent, unrelated, strict and non-strict: presented leaf must be one the reference allows; (b) publisher alternates sets while 16 goroutines handshake: every leaf is the reference answer of exactly one published set and the publish/handshake history is a linearizable register (porcupine). evaluations = handshakes + GetCertificate calls; non-trivial = name answered by a wildcard or by an exact match among overlapping certificates, or a handshake overlapping a publish; distinct by (set,name,strict)"
	nsets := c.scale(c.pick(40, 1500))
	r := c.rng(11)
	for si := 0; si < nsets; si++ {
		set := genC11Set(r, fmt.Sprintf("s%d", si))
		for _, strict := range []bool{false, true} {
			src := &c11Src{ch: make(chan []tls.Certificate)}
			cfg, err := cert.TLSConfig(src, strict, 0, 0, nil)
			if err != nil {
				c.R.Inconcl("TLSConfig: %v", err)
				return
			}
			src.ch <- set.tls()
			src.ch <- set.tls() // the second send returning implies the first set is installed
			probe := func(name string, viaHandshake bool) {
				c.R.Eval(1)
				ok := c11Acceptable(set, name, strict)
				in := map[string]any{"set": c11Desc(set), "name": name, "strict": strict}
				var got string
				if viaHandshake {
					ver := uint16(tls.VersionTLS13)
					if r.Intn(2) == 0 {
						ver = tls.VersionTLS12
					}
					got, err = c11Handshake(cfg, name, ver)
					if err != nil && len(ok) > 0 {
						c.R.Violate("c11:handshake-failed", fmt.Sprintf("handshake for %q failed (%v) although the set has an acceptable certificate", name, err), in)
						return
					}
				} else {
					crt, _ := cfg.GetCertificate(&tls.ClientHelloInfo{ServerName: name})
					if crt != nil && crt.Leaf != nil {
						got = crt.Leaf.SerialNumber.String()
					} else if crt != nil {
						x, _ := x509.ParseCertificate(crt.Certificate[0])
						got = x.SerialNumber.String()
					}
				}
				if len(ok) >= 1 && c11Ref(set, name, strict) != set[0] || len(ok) > 1 {
					c.R.Nontrivial(fmt.Sprintf("%s|%s|%v", c11Desc(set), name, strict))
				}
				switch {
				case len(ok) == 0 && got != "":
					c.R.Violate("c11:strict-presents-certificate", fmt.Sprintf("strict listener presented a certificate for %q which matches none of %s", name, c11Desc(set)), in)
				case len(ok) > 0 && !ok[got]:
					c.R.Violate("c11:wrong-certificate", fmt.Sprintf("name %q strict=%v: presented %s, allowed %v (set %s)", name, strict, c11Who(set, got), c11WhoAll(set, ok), c11Desc(set)), in)
				}
				if c.R.WantSample() && len(ok) > 0 && name != "" {
					c.R.Sample(map[string]any{"set": c11Desc(set), "server_name": name, "strict": strict, "presented": c11Who(set, got)})
				}
			}
			for _, n := range c11Names {
				probe(randCase(r, n), true)
				probe(randCase(r, n)+".", false) // clients strip the trailing dot themselves, so go through GetCertificate
				probe(strings.ToUpper(n), false)
			}
			probe("", false)
			probe("", true) // no SNI at all (IP literal style client)
			close(src.ch)
		}
	}
	c11Replace(c)
}

func c11Desc(s c11Set) string {
	var parts []string
	for _, c := range s {
		parts = append(parts, fmt.Sprintf("%s{CN=%s SAN=%v}", c.File, c.CN, c.SANs))
	}
	return strings.Join(parts, " ")
}

func c11Who(s c11Set, serial string) string {
	for _, c := range s {
		if c.Serial == serial {
			return c.File
		}
	}
	if serial == "" {
		return "<none>"
	}
	return "<foreign " + serial + ">"
}

func c11WhoAll(s c11Set, ok map[string]bool) []string {
	var out []string
	for k := range ok {
		out = append(out, c11Who(s, k))
	}
	sort.Strings(out)
	return out
}

// c11Replace: sets A, B, C answer the probed names pairwise differently; handshakes run while the publisher alternates them.
func c11Replace(c *ctx) {
	sets := []c11Set{
		{c11Make("a-0-cert.pem", "p.r.test"), c11Make("a-1-cert.pem", "q.r.test")},                 // exact
		{c11Make("b-0-cert.pem", "dflt.b.test"), c11Make("b-1-cert.pem", "unrelated.b.test")},      // default
		{c11Make("c-0-cert.pem", "first.c.test"), c11Make("c-1-cert.pem", "*.r.test", "*.r.test")}, // wildcard
	}
	names := []string{"p.r.test", "q.r.test"}
	bySerial := map[string]int{}
	for i, s := range sets {
		for _, x := range s {
			bySerial[x.Serial] = i
		}
	}
	nh := c.scale(c.pick(60, 1500))
	model := porcupine.Model{
		Init: func() any { return -1 },
		Step: func(st, in, out any) (bool, any) {
			if w, ok := in.(int); ok && w >= 0 {
				return true, w
			}
			return out.(int) == st.(int), st
		},
		DescribeOperation: func(in, out any) string {
			if w := in.(int); w >= 0 {
				return fmt.Sprintf("publish(%d)", w)
			}
			return fmt.Sprintf("handshake->set %d", out.(int))
		},
	}
	start := time.Now()
	var okH, bad, unk int64
	for h := 0; h < nh; h++ {
		src := &c11Src{ch: make(chan []tls.Certificate)}
		cfg, _ := cert.TLSConfig(src, false, 0, 0, nil)
		var mu sync.Mutex
		var ops []porcupine.Operation
		var wg sync.WaitGroup
		var stop atomic.Bool
		var hybrid atomic.Value
		wg.Add(1)
		go func() {
			defer wg.Done()
			r := rand.New(rand.NewSource(int64(h)))
			for k := 0; k < 5; k++ {
				w := r.Intn(3)
				t0 := int64(time.Since(start))
				src.ch <- sets[w].tls()
				src.ch <- sets[w].tls()
				t1 := int64(time.Since(start))
				mu.Lock()
				ops = append(ops, porcupine.Operation{ClientId: 0, Input: w, Call: t0, Output: 0, Return: t1})
				mu.Unlock()
			}
			stop.Store(true)
		}()
		for g := 1; g <= 6; g++ {
			wg.Add(1)
			go func(g int) {
				defer wg.Done()
				for i := 0; i < 6 && !stop.Load(); i++ {
					name := names[(g+i)%2]
					t0 := int64(time.Since(start))
					serial, err := c11Handshake(cfg, name, tls.VersionTLS13)
					t1 := int64(time.Since(start))
					c.R.Eval(1)
					set := -1
					if err == nil {
						si, known := bySerial[serial]
						if !known {
							hybrid.Store(fmt.Sprintf("handshake for %s presented an unknown certificate %s", name, serial))
							return
						}
						set = si
						if !c11Acceptable(sets[si], name, false)[serial] {
							hybrid.Store(fmt.Sprintf("handshake for %s presented %s of set %d which is not that set's answer for the name (mixture of two sets)", name, c11Who(sets[si], serial), si))
							return
						}
					}
					mu.Lock()
					ops = append(ops, porcupine.Operation{ClientId: g, Input: -1, Call: t0, Output: set, Return: t1})
					mu.Unlock()
				}
			}(g)
		}
		wg.Wait()
		close(src.ch)
		if hb, _ := hybrid.Load().(string); hb != "" {
			c.R.Violate("c11:hybrid-set", hb, nil)
			continue
		}
		overlap := false
		for _, a := range ops {
			for _, b := range ops {
				if a.Input.(int) < 0 && b.Input.(int) >= 0 && a.Call < b.Return && b.Call < a.Return {
					overlap = true
				}
			}
		}
		if overlap {
			c.R.Nontrivial(fmt.Sprintf("replace-history-%d", h))
		}
		switch res, _ := porcupine.CheckOperationsVerbose(model, ops, 30*time.Second); res {
		case porcupine.Ok:
			okH++
		case porcupine.Illegal:
			bad++
			var d strings.Builder
			for _, o := range ops {
				fmt.Fprintf(&d, "[c%d %s @%d-%d] ", o.ClientId, model.DescribeOperation(o.Input, o.Output), o.Call, o.Return)
			}
			c.R.Violate("c11:stale-set-after-publish", "publish/handshake history is not a linearizable register (a handshake that began after a publish completed saw an older set): "+d.String(), nil)
		default:
			unk++
		}
	}
	c.R.SetCounter("replace_histories_ok", okH)
	c.R.SetCounter("replace_histories_illegal", bad)
	if unk > 0 {
		c.R.Inconcl("%d replacement histories: porcupine timed out", unk)
	}
}

// ---------- (c) sources that deliver unusable material ----------

type logCounter struct {
	mu    sync.Mutex
	lines int64
	buf   bytes.Buffer
}

func (l *logCounter) Write(p []byte) (int, error) {
	l.mu.Lock()
	l.lines += int64(bytes.Count(p, []byte("\n")))
	if l.buf.Len() < 1<<16 {
		l.buf.Write(p)
	}
	l.mu.Unlock()
	return len(p), nil
}

func (l *logCounter) count() int64 { l.mu.Lock(); defer l.mu.Unlock(); return l.lines }

func c11Sources(c *ctx) {
	c.R.Rule = "PathSource on a temp directory and HTTPSource on a counting HTTP server (refresh 1s): good set -> broken PEM added -> key/cert mismatch -> bad file removed -> new good set; the working set keeps being served during the bad phase, loader invocations in a window of measured length W are <= W/refresh+2 (no spinning), and the next good set is published within 5 refresh periods after the bad material is gone. evaluations = handshakes + load cycles observed; non-trivial = observation made while the source delivered unusable material; distinct by (source kind, phase, history)"
	lc := &logCounter{}
	log.SetOutput(lc)
	// a load-once source (refresh 0) whose first load fails must not retry in a busy loop either
	{
		dir := filepath.Join(c.Dir, "certs-once")
		os.MkdirAll(dir, 0o755)
		os.WriteFile(filepath.Join(dir, "bad-cert.pem"), []byte("-----BEGIN CERTIFICATE-----\ngarbage\n-----END CERTIFICATE-----\n"), 0o644)
		os.WriteFile(filepath.Join(dir, "bad-key.pem"), []byte("garbage"), 0o644)
		l0 := lc.count()
		ch := cert.PathSource{CertPath: dir, Refresh: 0}.Certificates()
		t0 := time.Now()
		select {
		case <-ch:
		case <-time.After(1500 * time.Millisecond):
		}
		w := time.Since(t0)
		lines := lc.count() - l0
		c.R.Eval(lines + 1)
		c.R.Nontrivial("load-once-failing")
		if lines > 40*(int64(w/time.Second)+2) {
			c.R.Violate("c11:source-spins:load-once", fmt.Sprintf("path source with refresh=0 and unusable material: %d log lines in %.1fs, the watcher retries without pause", lines, w.Seconds()), nil)
		}
		os.RemoveAll(dir)
	}
	nh := c.scale(c.pick(1, 6))
	var wg sync.WaitGroup
	for h := 0; h < nh; h++ {
		for _, kind := range []string{"path", "http"} {
			wg.Add(1)
			go func(h int, kind string) {
				defer wg.Done()
				c11BadHistory(c, lc, h, kind)
			}(h, kind)
		}
	}
	wg.Wait()
	c.R.SetCounter("log_lines_total", lc.count())
}

func c11BadHistory(c *ctx, lc *logCounter, h int, kind string) {
	dir := filepath.Join(c.Dir, fmt.Sprintf("certs-%s-%d", kind, h))
	os.MkdirAll(dir, 0o755)
	defer os.RemoveAll(dir)
	good0 := c11Make("g0-cert.pem", "zero.s.test")
	good1 := c11Make("g1-cert.pem", "one.s.test")
	good2 := c11Make("g2-cert.pem", "two.s.test")
	write := func(name string, cert, key []byte) {
		os.WriteFile(filepath.Join(dir, name+"-cert.pem"), cert, 0o644)
		os.WriteFile(filepath.Join(dir, name+"-key.pem"), key, 0o644)
	}
	var requests atomic.Int64
	var failMode atomic.Int32 // http source: 1 = the list URL answers 503 with an error page, 2 = the files answer 500
	var src cert.Source
	const refresh = time.Second
	if kind == "path" {
		src = cert.PathSource{CertPath: dir, Refresh: refresh}
	} else {
		mux := http.NewServeMux()
		mux.HandleFunc("/certs/list", func(w http.ResponseWriter, r *http.Request) {
			requests.Add(1)
			if failMode.Load() == 1 {
				http.Error(w, "<html><body>503 Service Unavailable: upstream maintenance</body></html>", http.StatusServiceUnavailable)
				return
			}
			es, _ := os.ReadDir(dir)
			for _, e := range es {
				fmt.Fprintf(w, "/%s\n", e.Name())
			}
		})
		files := http.StripPrefix("/certs/", http.FileServer(http.Dir(dir)))
		mux.HandleFunc("/certs/", func(w http.ResponseWriter, r *http.Request) {
			if failMode.Load() == 2 {
				http.Error(w, "internal error", http.StatusInternalServerError)
				return
			}
			files.ServeHTTP(w, r)
		})
		ln, err := net.Listen("tcp", "127.0.0.1:0")
		if err != nil {
			c.R.Inconcl("listen: %v", err)
			return
		}
		srv := &http.Server{Handler: mux}
		go srv.Serve(ln)
		defer srv.Close()
		src = cert.HTTPSource{CertURL: "http://" + ln.Addr().String() + "/certs/list", Refresh: refresh}
	}
	write("g0", good0.CertPEM, good0.KeyPEM)
	write("g1", good1.CertPEM, good1.KeyPEM)
	cfg, err := cert.TLSConfig(src, false, 0, 0, nil)
	if err != nil {
		c.R.Inconcl("TLSConfig(%s): %v", kind, err)
		return
	}
	served := func(name string) string {
		s, _ := c11Handshake(cfg, name, tls.VersionTLS13)
		c.R.Eval(1)
		return s
	}
	waitFor := func(name, serial string, max time.Duration) bool {
		dl := time.Now().Add(max)
		for time.Now().Before(dl) {
			if served(name) == serial {
				return true
			}
			time.Sleep(100 * time.Millisecond)
		}
		return false
	}
	in := map[string]any{"kind": kind, "history": h}
	if !waitFor("one.s.test", good1.Serial, 20*time.Second) {
		c.R.Inconcl("%s source: first good set was not published within 20s", kind)
		return
	}
	phases := []struct {
		name string
		make func()
	}{
		{"broken-pem", func() {
			write("zz-bad", []byte("-----BEGIN CERTIFICATE-----\nnot base64!!\n-----END CERTIFICATE-----\n"), good2.KeyPEM)
		}},
		{"key-cert-mismatch", func() { write("zz-bad", good2.CertPEM, good1.KeyPEM) }},
		{"missing-key", func() { os.Remove(filepath.Join(dir, "zz-bad-key.pem")) }},
		// a certificate that is part of the working set is damaged (e.g. read in the middle of a rewrite) while others stay valid
		{"working-certificate-garbled", func() {
			os.Remove(filepath.Join(dir, "zz-bad-cert.pem"))
			os.WriteFile(filepath.Join(dir, "g0-cert.pem"), good0.CertPEM[:len(good0.CertPEM)/2], 0o644)
		}},
	}
	if kind == "http" {
		// the server itself fails: error pages instead of the list or of the files
		phases = append(phases, struct {
			name string
			make func()
		}{"list-url-answers-503", func() {
			os.WriteFile(filepath.Join(dir, "g0-cert.pem"), good0.CertPEM, 0o644)
			failMode.Store(1)
		}}, struct {
			name string
			make func()
		}{"file-urls-answer-500", func() { failMode.Store(2) }})
	}
	defer failMode.Store(0)
	for _, ph := range phases {
		ph.make()
		time.Sleep(1500 * time.Millisecond) // let the watcher notice
		l0, r0, t0 := lc.count(), requests.Load(), time.Now()
		for i := 0; i < 20; i++ {
			if got := served("one.s.test"); got != good1.Serial {
				c.R.Violate("c11:working-set-lost:"+kind, fmt.Sprintf("%s source, phase %s: the working certificate is no longer served (got %q)", kind, ph.name, got), in)
				return
			}
			if got := served("zero.s.test"); got != good0.Serial {
				c.R.Violate("c11:working-set-partly-replaced:"+kind, fmt.Sprintf("%s source, phase %s: the working certificate for zero.s.test is no longer served (got %s) although the source delivers unusable material", kind, ph.name, got), in)
				return
			}
			c.R.Nontrivial(fmt.Sprintf("%s/%s/%d/%d", kind, ph.name, h, i))
			time.Sleep(100 * time.Millisecond)
		}
		w := time.Since(t0)
		bound := int64(w/refresh) + 2
		lines, reqs := lc.count()-l0, requests.Load()-r0
		c.R.Count("bad_phase_windows", 1)
		c.R.MaxCounter("max_log_lines_per_window_"+kind, lines)
		if kind == "http" {
			c.R.Eval(reqs)
			if reqs > bound {
				c.R.Violate("c11:source-spins:http", fmt.Sprintf("http source, phase %s: %d loader requests in %.1fs (refresh %s allows %d)", ph.name, reqs, w.Seconds(), refresh, bound), in)
				return
			}
		} else {
			// the log output is shared by all concurrent histories of this process: 4 lines per load cycle and history
			c.R.Eval(lines)
			if lines > 40*bound {
				c.R.Violate("c11:source-spins:path", fmt.Sprintf("path source, phase %s: %d log lines in %.1fs, the watcher reloads without pause", ph.name, lines, w.Seconds()), in)
				return
			}
		}
	}
	failMode.Store(0)
	// remove the bad material and add a new good certificate: it must be published
	os.WriteFile(filepath.Join(dir, "g0-cert.pem"), good0.CertPEM, 0o644)
	os.Remove(filepath.Join(dir, "zz-bad-cert.pem"))
	os.Remove(filepath.Join(dir, "zz-bad-key.pem"))
	write("g2", good2.CertPEM, good2.KeyPEM)
	if !waitFor("two.s.test", good2.Serial, 5*refresh+2*time.Second) {
		c.R.Violate("c11:good-set-not-published:"+kind, fmt.Sprintf("%s source: after the bad material was removed the new good set was not published within %s", kind, 5*refresh+2*time.Second), in)
		return
	}
	c.R.Count("recovered_histories", 1)
	c.R.Sample(map[string]any{"source": kind, "history": "good -> broken PEM -> key/cert mismatch -> missing key -> removed + new cert", "outcome": "working set served throughout, new set published"})
}
