package main

import (
	"crypto/tls"
	"fmt"
	"io"
	"math/rand"
	"net"
	"net/http"
	"net/http/httptrace"
	"os/exec"
	"regexp"
	"strconv"
	"strings"
	"sync"
	"sync/atomic"
	"syscall"
	"time"

	"github.com/fabiolb/fabio/config"
	"github.com/fabiolb/fabio/transport"

	"verif/harness/internal/fabioproc"
	"verif/harness/internal/rawhttp"
)

func init() {
	register("c19-transport", "C19", c19Transport)
	register("c19-timeouts", "C19", c19Timeouts)
}

// blackhole returns the address of a listening socket whose accept queue is full:
// further connection attempts hang (SYNs are dropped), which makes a dial timeout observable.
func blackhole() (addr string, closeFn func(), ok bool) {
	fd, err := syscall.Socket(syscall.AF_INET, syscall.SOCK_STREAM, 0)
	if err != nil {
		return "", nil, false
	}
	sa := &syscall.SockaddrInet4{Addr: [4]byte{127, 0, 0, 1}}
	if syscall.Bind(fd, sa) != nil || syscall.Listen(fd, 0) != nil {
		syscall.Close(fd)
		return "", nil, false
	}
	lsa, _ := syscall.Getsockname(fd)
	port := lsa.(*syscall.SockaddrInet4).Port
	addr = fmt.Sprintf("127.0.0.1:%d", port)
	var held []net.Conn
	for i := 0; i < 4; i++ {
		c, err := net.DialTimeout("tcp", addr, 150*time.Millisecond)
		if err != nil {
			break
		}
		held = append(held, c)
	}
	closeFn = func() {
		for _, c := range held {
			c.Close()
		}
		syscall.Close(fd)
	}
	// verify that a direct dial hangs now
	t0 := time.Now()
	c, err := net.DialTimeout("tcp", addr, 300*time.Millisecond)
	if err == nil {
		c.Close()
		closeFn()
		return "", nil, false
	}
	if time.Since(t0) < 250*time.Millisecond {
		closeFn()
		return "", nil, false
	}
	return addr, closeFn, true
}

func c19Transport(c *ctx) {
	c.R.Rule = "generated values of the five proxy transport options through transport.SetConfig; the default transport, the skip-verify transport and the per-route transport that route.NewTable builds for a host= https target must carry exactly the configured response-header timeout, idle timeout and idle connections per host; the dial timeout is observed behaviourally against a socket whose accept queue is full. evaluations = (configuration, transport) pairs; non-trivial = pair with all-non-zero limits; distinct by configuration"
	r := c.rng(19)
	n := c.scale(c.pick(300, 5000))
	bh, closeBH, haveBH := blackhole()
	if haveBH {
		defer closeBH()
	} else {
		c.R.Note("blackhole listener not available in this environment: the dial timeout sub-check is skipped")
	}
	kaLn, err := net.Listen("tcp", "127.0.0.1:0")
	if err != nil {
		c.R.Inconcl("listen: %v", err)
		return
	}
	defer kaLn.Close()
	go http.Serve(kaLn, http.HandlerFunc(func(w http.ResponseWriter, r *http.Request) { w.WriteHeader(204) }))
	kaSrv := kaLn.Addr().String()
	dur := func() time.Duration {
		return choose(r, []time.Duration{0, 50 * time.Millisecond, 123 * time.Millisecond, time.Second, 1500 * time.Millisecond, 30 * time.Second, time.Minute, 17 * time.Hour})
	}
	for i := 0; i < n; i++ {
		cfg := &config.Config{}
		cfg.Proxy.DialTimeout = dur()
		cfg.Proxy.ResponseHeaderTimeout = dur()
		cfg.Proxy.KeepAliveTimeout = dur()
		cfg.Proxy.IdleConnTimeout = dur()
		cfg.Proxy.MaxConn = choose(r, []int{0, 1, 7, 100, 10000, 123456})
		transport.SetConfig(cfg)
		in := map[string]any{"dial": cfg.Proxy.DialTimeout.String(), "responseheader": cfg.Proxy.ResponseHeaderTimeout.String(), "keepalive": cfg.Proxy.KeepAliveTimeout.String(), "idle": cfg.Proxy.IdleConnTimeout.String(), "maxconn": cfg.Proxy.MaxConn}
		t, err := newTable(`route add svc hostroute.test/ https://10.1.1.1:443/ opts "host=inner.test proto=https"`)
		if err != nil {
			c.R.Inconcl("table: %v", err)
			return
		}
		perRoute := t["hostroute.test"][0].Targets[0].Transport
		if perRoute == nil {
			c.R.Violate("c19:no-per-route-transport", "a host= https target has no transport of its own", in)
			return
		}
		c.R.Eval(3)
		for name, tr := range map[string]*struct {
			rht, idle time.Duration
			maxc      int
		}{
			"default":          {transport.NewTransport(nil).ResponseHeaderTimeout, transport.NewTransport(nil).IdleConnTimeout, transport.NewTransport(nil).MaxIdleConnsPerHost},
			"skip-verify":      {transport.NewTransport(&tls.Config{InsecureSkipVerify: true}).ResponseHeaderTimeout, transport.NewTransport(&tls.Config{}).IdleConnTimeout, transport.NewTransport(&tls.Config{}).MaxIdleConnsPerHost},
			"per-route(host=)": {perRoute.ResponseHeaderTimeout, perRoute.IdleConnTimeout, perRoute.MaxIdleConnsPerHost},
		} {
			if tr.rht != cfg.Proxy.ResponseHeaderTimeout || tr.idle != cfg.Proxy.IdleConnTimeout || tr.maxc != cfg.Proxy.MaxConn {
				c.R.Violate("c19:transport-ignores-configuration:"+name, fmt.Sprintf("%s transport has response-header timeout %s, idle timeout %s, idle conns/host %d; configured %s, %s, %d", name, tr.rht, tr.idle, tr.maxc, cfg.Proxy.ResponseHeaderTimeout, cfg.Proxy.IdleConnTimeout, cfg.Proxy.MaxConn), in)
				return
			}
		}
		if cfg.Proxy.DialTimeout > 0 && cfg.Proxy.ResponseHeaderTimeout > 0 && cfg.Proxy.IdleConnTimeout > 0 && cfg.Proxy.MaxConn > 0 {
			c.R.Nontrivial(fmt.Sprint(in))
		}
		if c.R.WantSample() {
			c.R.Sample(in)
		}
		// keep-alive, behaviourally: the socket a real round trip used must carry the configured idle time
		if i%10 == 0 {
			ka := choose(r, []time.Duration{time.Second, 7 * time.Second, 30 * time.Second, 90 * time.Second, 1500 * time.Millisecond, 17 * time.Minute})
			cfg.Proxy.KeepAliveTimeout = ka
			cfg.Proxy.DialTimeout = choose(r, []time.Duration{2 * time.Second, 3 * time.Second, 5 * time.Second}) // never equal to ka
			transport.SetConfig(cfg)
			for name, tr := range map[string]*http.Transport{"default": transport.NewTransport(nil), "per-route(host=)": func() *http.Transport {
				t2, _ := newTable(`route add svc hostroute.test/ https://10.1.1.1:443/ opts "host=inner.test proto=https"`)
				return t2["hostroute.test"][0].Targets[0].Transport
			}()} {
				on, idle, err := c19KeepAliveOf(tr, kaSrv)
				c.R.Eval(1)
				c.R.Count("keepalive_observations", 1)
				if err != nil {
					c.R.Note("keep-alive observation failed: %v", err)
					continue
				}
				want := int((ka + time.Second - 1) / time.Second)
				if !on || idle != want {
					c.R.Violate("c19:keepalive-not-applied:"+name, fmt.Sprintf("%s transport, configured keep-alive %s: the upstream socket has SO_KEEPALIVE=%v TCP_KEEPIDLE=%ds, want on and %ds", name, ka, on, idle, want), in)
					return
				}
			}
		}
		// dial timeout, behaviourally (a few per run: each costs its timeout)
		if haveBH && i%40 == 0 {
			d := choose(r, []time.Duration{150 * time.Millisecond, 300 * time.Millisecond, 500 * time.Millisecond})
			cfg.Proxy.DialTimeout = d
			transport.SetConfig(cfg)
			tr := transport.NewTransport(nil)
			t0 := time.Now()
			done := make(chan error, 1)
			go func() {
				// a real request: net/http decides which of the transport's dial hooks it uses
				req, _ := http.NewRequest("GET", "http://"+bh+"/", nil)
				resp, err := tr.RoundTrip(req)
				if resp != nil {
					resp.Body.Close()
				}
				tr.CloseIdleConnections()
				done <- err
			}()
			select {
			case err := <-done:
				el := time.Since(t0)
				c.R.Count("dial_timeout_observations", 1)
				if err == nil {
					c.R.Note("dial to the blackhole succeeded after %s: sub-check inconclusive", el)
				} else if el < d-20*time.Millisecond || el > d+1500*time.Millisecond {
					c.R.Violate("c19:dial-timeout-not-applied", fmt.Sprintf("dial with configured timeout %s ended after %s (%v)", d, el, err), in)
				}
			case <-time.After(d + 4*time.Second):
				c.R.Violate("c19:dial-timeout-not-applied", fmt.Sprintf("dial with configured timeout %s still hangs after %s", d, d+4*time.Second), in)
			}
		}
	}
}

// c19KeepAliveOf performs one plain-HTTP round trip through tr and reads the keep-alive settings back from the socket it used.
func c19KeepAliveOf(tr *http.Transport, addr string) (on bool, idleSec int, err error) {
	var used net.Conn
	req, _ := http.NewRequest("GET", "http://"+addr+"/", nil)
	req = req.WithContext(httptrace.WithClientTrace(req.Context(), &httptrace.ClientTrace{GotConn: func(i httptrace.GotConnInfo) { used = i.Conn }}))
	resp, err := tr.RoundTrip(req)
	if err != nil {
		return false, 0, err
	}
	defer tr.CloseIdleConnections()
	defer resp.Body.Close()
	tc, ok := used.(*net.TCPConn)
	if !ok {
		return false, 0, fmt.Errorf("connection is a %T", used)
	}
	rc, err := tc.SyscallConn()
	if err != nil {
		return false, 0, err
	}
	var e1, e2 error
	var v1, v2 int
	rc.Control(func(fd uintptr) {
		v1, e1 = syscall.GetsockoptInt(int(fd), syscall.SOL_SOCKET, syscall.SO_KEEPALIVE)
		v2, e2 = syscall.GetsockoptInt(int(fd), syscall.IPPROTO_TCP, syscall.TCP_KEEPIDLE)
	})
	if e1 != nil {
		return false, 0, e1
	}
	return v1 != 0, v2, e2
}

// ---------- process level ----------

func c19Timeouts(c *ctx) {
	c.R.Rule = "the real binary with -proxy.responseheadertimeout T (T = 400ms, 1s), -proxy.maxconn and -proxy.idleconntimeout against upstreams that delay their response headers by 0.25T, 0.5T, 2T and 5T, on default routes, tlsskipverify=true https routes and host= https routes: delay <= 0.5T => the upstream's answer, delay >= 2T => 504 before the upstream would have answered and no later than T+1.5s; after a burst of parallel requests at most maxconn upstream connections stay open and all are closed within idleconntimeout+1.5s. evaluations = requests; non-trivial = request whose delay exceeds the timeout; distinct by (T, route kind, delay factor)"
	type cfgT struct {
		T       time.Duration
		MaxConn int
		Idle    time.Duration
		KA      time.Duration
	}
	cfgs := []cfgT{{400 * time.Millisecond, 3, 2 * time.Second, 47 * time.Second}}
	if c.thorough() {
		cfgs = append(cfgs, cfgT{time.Second, 5, 1 * time.Second, 29 * time.Second}, cfgT{250 * time.Millisecond, 2, 3 * time.Second, 38 * time.Second})
	}
	var wg sync.WaitGroup
	for ci, cf := range cfgs {
		wg.Add(1)
		go func(ci int, cf cfgT) {
			defer wg.Done()
			crt := c11Make("up-cert.pem", "up.test", "up.test")
			plainUp, err := rawhttp.NewUpstream("127.0.0.1:0")
			if err != nil {
				c.R.Inconcl("upstream: %v", err)
				return
			}
			defer plainUp.Close()
			tlsUp, err := rawhttp.NewUpstreamTLS("127.0.0.1:0", &tls.Config{Certificates: []tls.Certificate{crt.TLS}})
			if err != nil {
				c.R.Inconcl("tls upstream: %v", err)
				return
			}
			defer tlsUp.Close()
			// an https upstream that accepts the connection and then says nothing at all (no ServerHello)
			sln, err := net.Listen("tcp", "127.0.0.1:0")
			if err != nil {
				c.R.Inconcl("listen: %v", err)
				return
			}
			defer sln.Close()
			go func() {
				for {
					cn, err := sln.Accept()
					if err != nil {
						return
					}
					go func() { defer cn.Close(); io.Copy(io.Discard, cn) }()
				}
			}()
			silentAddr := sln.Addr().String()
			proxyAddr := fmt.Sprintf("127.0.0.1:%d", freePort())
			bh, closeBH, haveBH := blackhole()
			if haveBH {
				defer closeBH()
			} else {
				bh = "127.0.0.1:1"
			}
			manual := strings.Join([]string{
				fmt.Sprintf("route add dflt dflt.test/ http://%s/", plainUp.Addr()),
				fmt.Sprintf("route add skip skip.test/ https://%s/ opts \"proto=https tlsskipverify=true\"", tlsUp.Addr()),
				fmt.Sprintf("route add hostr hostr.test/ https://%s/ opts \"proto=https host=up.test tlsskipverify=true\"", tlsUp.Addr()),
				fmt.Sprintf("route add hang hang.test/ http://%s/", bh),
				fmt.Sprintf("route add silent silent.test/ https://%s/ opts \"proto=https tlsskipverify=true\"", silentAddr),
				fmt.Sprintf("route add silenth silenth.test/ https://%s/ opts \"proto=https host=up.test tlsskipverify=true\"", silentAddr),
			}, "\n")
			// the routes are in the Consul KV store before fabio starts: they are part of the first routing table, and no
			// barrier (which would rebuild the table) is issued afterwards
			rg, err := newRigWith(c, fmt.Sprintf("c19-%d", ci), []string{"-proxy.addr", proxyAddr, "-proxy.responseheadertimeout", cf.T.String(),
				"-proxy.maxconn", fmt.Sprint(cf.MaxConn), "-proxy.idleconntimeout", cf.Idle.String(), "-proxy.keepalivetimeout", cf.KA.String(), "-proxy.dialtimeout", "700ms", "-log.level", "WARN"}, manual)
			if err != nil {
				c.R.Inconcl("cannot start fabio: %v", err)
				return
			}
			defer rg.close()
			if !fabioproc.WaitListening(proxyAddr, 20*time.Second) {
				c.R.Inconcl("proxy listener did not come up")
				return
			}
			if haveBH {
				// dial timeout through the real binary: the upstream's accept queue is full
				for k := 0; k < 2; k++ {
					raw := "GET /hang HTTP/1.1\r\nHost: hang.test\r\nConnection: close\r\n\r\n"
					resp := rawhttp.Do(rawhttp.Dial{Addr: proxyAddr, Timeout: 20 * time.Second}, []byte(raw), "GET")
					c.R.Eval(1)
					c.R.Nontrivial(fmt.Sprintf("hang-%d-%d", ci, k))
					if resp.Err != nil || resp.Status < 500 || resp.Elapsed > 700*time.Millisecond+2*time.Second {
						c.R.Violate("c19:dial-timeout-not-applied:binary", fmt.Sprintf("upstream whose connect hangs, -proxy.dialtimeout 700ms: status %d after %s (err %v)", resp.Status, resp.Elapsed.Round(time.Millisecond), resp.Err), nil)
					}
				}
			}
			// the silent https upstream: no answer within the limits => 504, not a client held for ever
			for k, host := range []string{"silent.test", "silenth.test", "silent.test"} {
				raw := fmt.Sprintf("GET /s%d HTTP/1.1\r\nHost: %s\r\nConnection: close\r\n\r\n", k, host)
				resp := rawhttp.Do(rawhttp.Dial{Addr: proxyAddr, Timeout: 12 * time.Second}, []byte(raw), "GET")
				c.R.Eval(1)
				c.R.Nontrivial(fmt.Sprintf("silent-tls-%d-%d", ci, k))
				if bound := 700*time.Millisecond + cf.T + 2*time.Second; resp.Err != nil || resp.Status != 504 || resp.Elapsed > bound {
					c.R.Violate("c19:silent-tls-upstream-holds-client:"+host, fmt.Sprintf("https upstream that accepts and never answers the ClientHello (-proxy.dialtimeout 700ms, -proxy.responseheadertimeout %s): status %d after %s (err %v), want 504 within %s", cf.T, resp.Status, resp.Elapsed.Round(time.Millisecond), resp.Err, bound), nil)
					break
				}
			}
			r := c.rng(int64(1900 + ci))
			var seq atomic.Int64
			n := c.scale(c.pick(60, 600))
			var rwg sync.WaitGroup
			sem := make(chan struct{}, 8)
			for i := 0; i < n; i++ {
				kind := choose(r, []string{"dflt", "skip", "hostr"})
				factor := choose(r, []float64{0, 0.25, 0.5, 2, 5})
				rwg.Add(1)
				sem <- struct{}{}
				go func(kind string, factor float64) {
					defer rwg.Done()
					defer func() { <-sem }()
					up := plainUp
					if kind != "dflt" {
						up = tlsUp
					}
					id := fmt.Sprintf("t%d-%d", ci, seq.Add(1))
					delay := time.Duration(float64(cf.T) * factor)
					body := []byte("answer-" + id)
					up.SetScript(id, &rawhttp.Script{Status: 203, Framing: "length", Body: body, Delay: delay, Headers: []rawhttp.Header{{Name: "Content-Type", Value: "text/plain"}}})
					raw := fmt.Sprintf("GET /x HTTP/1.1\r\nHost: %s.test\r\nX-Verif-Id: %s\r\nConnection: close\r\n\r\n", kind, id)
					resp := rawhttp.Do(rawhttp.Dial{Addr: proxyAddr, Timeout: 30 * time.Second}, []byte(raw), "GET")
					up.Take(id)
					c.R.Eval(1)
					in := map[string]any{"T": cf.T.String(), "route": kind, "upstream_delay": delay.String()}
					if factor >= 2 {
						c.R.Nontrivial(fmt.Sprintf("%s/%s/%v", cf.T, kind, factor))
					}
					switch {
					case resp.Err != nil:
						c.R.Violate("c19:request-failed", fmt.Sprintf("T=%s route %s delay %s: %v", cf.T, kind, delay, resp.Err), in)
					case factor <= 0.5:
						if resp.Status != 203 || string(resp.Body) != string(body) {
							c.R.Violate("c19:timely-upstream-not-served", fmt.Sprintf("T=%s route %s: the upstream answered after %s (in time) but the client got status %d body %.40q after %s", cf.T, kind, delay, resp.Status, resp.Body, resp.Elapsed), in)
						}
					default:
						if resp.Status != 504 {
							c.R.Violate("c19:no-504:"+kind, fmt.Sprintf("T=%s route %s: the upstream needs %s for its headers; client got status %d after %s, want 504", cf.T, kind, delay, resp.Status, resp.Elapsed), in)
						} else if resp.Elapsed >= delay || resp.Elapsed > cf.T+1500*time.Millisecond {
							c.R.Violate("c19:504-too-late:"+kind, fmt.Sprintf("T=%s route %s: 504 after %s (upstream delay %s)", cf.T, kind, resp.Elapsed, delay), in)
						}
					}
					if c.R.WantSample() && factor >= 2 {
						c.R.Sample(map[string]any{"T": cf.T.String(), "route": kind, "upstream_delay": delay.String(), "client_status": resp.Status, "client_elapsed": resp.Elapsed.String()})
					}
				}(kind, factor)
			}
			rwg.Wait()
			// more simultaneous requests to a slow upstream than proxy.maxconn: the option limits idle connections, it must
			// not make requests queue for a connection (each one still gets its 504 in time)
			{
				var qwg sync.WaitGroup
				var worst atomic.Int64
				var wrong atomic.Int64
				nq := 3*cf.MaxConn + 3
				for k := 0; k < nq; k++ {
					qwg.Add(1)
					go func(k int) {
						defer qwg.Done()
						id := fmt.Sprintf("q%d-%d", ci, k)
						plainUp.SetScript(id, &rawhttp.Script{Status: 200, Framing: "length", Body: []byte("late"), Delay: 5 * cf.T})
						raw := fmt.Sprintf("GET /queue HTTP/1.1\r\nHost: dflt.test\r\nX-Verif-Id: %s\r\nConnection: close\r\n\r\n", id)
						resp := rawhttp.Do(rawhttp.Dial{Addr: proxyAddr, Timeout: 30 * time.Second}, []byte(raw), "GET")
						plainUp.Take(id)
						c.R.Eval(1)
						if resp.Status != 504 {
							wrong.Add(1)
						}
						if int64(resp.Elapsed) > worst.Load() {
							worst.Store(int64(resp.Elapsed))
						}
					}(k)
				}
				qwg.Wait()
				c.R.Nontrivial(fmt.Sprintf("queue-%d", ci))
				if w := time.Duration(worst.Load()); wrong.Load() > 0 || w > cf.T+time.Second {
					c.R.Violate("c19:requests-queue-behind-maxconn", fmt.Sprintf("%d simultaneous requests to an upstream that exceeds the %s response-header timeout (proxy.maxconn %d): %d did not get 504, the slowest answer took %s (bound %s)", nq, cf.T, cf.MaxConn, wrong.Load(), w.Round(time.Millisecond), cf.T+time.Second), nil)
				}
			}
			// idle connections: a burst of parallel keep-alive requests, then watch the upstream's open connections
			time.Sleep(cf.Idle + 500*time.Millisecond) // let earlier connections expire
			base := plainUp.OpenConns()
			var bwg sync.WaitGroup
			for k := 0; k < 10; k++ {
				bwg.Add(1)
				go func(k int) {
					defer bwg.Done()
					id := fmt.Sprintf("b%d-%d", ci, k)
					plainUp.SetScript(id, &rawhttp.Script{Status: 200, Framing: "length", Body: []byte("x"), Delay: 150 * time.Millisecond})
					raw := fmt.Sprintf("GET /burst HTTP/1.1\r\nHost: dflt.test\r\nX-Verif-Id: %s\r\nConnection: close\r\n\r\n", id)
					rawhttp.Do(rawhttp.Dial{Addr: proxyAddr}, []byte(raw), "GET")
					plainUp.Take(id)
				}(k)
			}
			bwg.Wait()
			tBurst := time.Now()
			time.Sleep(400 * time.Millisecond)
			open := plainUp.OpenConns()
			c.R.Eval(1)
			c.R.MaxCounter("idle_conns_after_burst", int64(open))
			if open > cf.MaxConn+base {
				c.R.Violate("c19:idle-connections-exceed-maxconn", fmt.Sprintf("%d upstream connections still open 400ms after a burst of 10 (maxconn %d, %d open before)", open, cf.MaxConn, base), nil)
			}
			// keep-alive: the kernel's view (ss) of fabio's idle connections to the upstream shows the keep-alive timer
			// counting down from the configured period (Go's default would be 15s)
			if open > 0 {
				_, port, _ := net.SplitHostPort(plainUp.Addr())
				out, err := exec.Command("ss", "-tnoH", "state", "established", "( dport = :"+port+" )").CombinedOutput()
				timers := regexp.MustCompile(`timer:\(keepalive,(\d+)sec,`).FindAllStringSubmatch(string(out), -1)
				switch {
				case err != nil:
					c.R.Note("ss not usable (%v): keep-alive through the binary not observed", err)
				case len(timers) == 0:
					c.R.Note("ss shows no keep-alive timer on %d idle upstream connections: %.300q", open, out)
					if strings.Contains(string(out), "127.0.0.1:"+port) {
						c.R.Violate("c19:keepalive-not-applied:binary", fmt.Sprintf("-proxy.keepalivetimeout %s: fabio's idle upstream connections carry no keep-alive timer: %.400q", cf.KA, out), nil)
					}
				default:
					for _, m := range timers {
						left, _ := strconv.Atoi(m[1])
						c.R.Eval(1)
						c.R.Count("keepalive_timers_seen_by_ss", 1)
						if ka := int(cf.KA / time.Second); left > ka || left < ka-10 {
							c.R.Violate("c19:keepalive-not-applied:binary", fmt.Sprintf("-proxy.keepalivetimeout %s: an idle upstream connection's keep-alive timer stands at %ds shortly after its last use", cf.KA, left), nil)
							break
						}
					}
				}
			}
			// all idle connections must be gone after the idle timeout
			dl := tBurst.Add(cf.Idle + 1500*time.Millisecond)
			for time.Now().Before(dl) && plainUp.OpenConns() > 0 {
				time.Sleep(50 * time.Millisecond)
			}
			if left := plainUp.OpenConns(); left > 0 {
				c.R.Violate("c19:idle-timeout-not-applied", fmt.Sprintf("%d upstream connections still open %s after the burst (idleconntimeout %s)", left, time.Since(tBurst).Round(time.Millisecond), cf.Idle), nil)
			} else if el := time.Since(tBurst); open > 0 && el < cf.Idle-300*time.Millisecond {
				c.R.Violate("c19:idle-connections-closed-early", fmt.Sprintf("idle upstream connections were closed %s after the burst, idleconntimeout is %s", el.Round(time.Millisecond), cf.Idle), nil)
			}
			c.R.Count("idle_histories", 1)
		}(ci, cf)
	}
	wg.Wait()
}

var _ = rand.Int
