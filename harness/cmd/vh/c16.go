package main

import (
	"bytes"
	"context"
	"crypto/tls"
	"fmt"
	"io"
	"math/rand"
	"net"
	"os"
	"path/filepath"
	"sort"
	"strings"
	"sync"
	"sync/atomic"
	"time"

	"google.golang.org/grpc"
	"google.golang.org/grpc/codes"
	"google.golang.org/grpc/credentials"
	"google.golang.org/grpc/credentials/insecure"
	"google.golang.org/grpc/encoding"
	grpcgzip "google.golang.org/grpc/encoding/gzip"
	"google.golang.org/grpc/metadata"
	"google.golang.org/grpc/status"
	"google.golang.org/protobuf/proto"
	"google.golang.org/protobuf/types/known/anypb"
	"google.golang.org/protobuf/types/known/structpb"
	"google.golang.org/protobuf/types/known/wrapperspb"

	"verif/harness/internal/fabioproc"
	"verif/harness/internal/fakeconsul"
)

func init() {
	register("c16-grpc", "C16", c16GRPC)
	encoding.RegisterCodec(rawCodec{})
}

// rawCodec passes message bytes through untouched; it takes the place of the "proto" codec in this process.
type rawCodec struct{}

func (rawCodec) Name() string { return "proto" }
func (rawCodec) Marshal(v any) ([]byte, error) {
	switch b := v.(type) {
	case *[]byte:
		return *b, nil
	case []byte:
		return b, nil
	}
	return nil, fmt.Errorf("rawCodec: unsupported %T", v)
}
func (rawCodec) Unmarshal(data []byte, v any) error {
	b, ok := v.(*[]byte)
	if !ok {
		return fmt.Errorf("rawCodec: unsupported %T", v)
	}
	*b = append((*b)[:0], data...)
	return nil
}

type c16Script struct {
	Header  metadata.MD
	Msgs    [][]byte
	Trailer metadata.MD
	Code    codes.Code
	Msg     string
	Gate    chan struct{} // when set: the backend answers only after it is closed
	// recorded
	mu      sync.Mutex
	gotMD   metadata.MD
	gotMsgs [][]byte
	method  string
	backend string
	called  bool
}

type countingListener struct {
	net.Listener
	accepted atomic.Int64
	open     atomic.Int64
}

type countedConn struct {
	net.Conn
	l    *countingListener
	once sync.Once
}

func (c *countedConn) Close() error {
	c.once.Do(func() { c.l.open.Add(-1) })
	return c.Conn.Close()
}

func (l *countingListener) Accept() (net.Conn, error) {
	c, err := l.Listener.Accept()
	if err == nil {
		l.accepted.Add(1)
		l.open.Add(1)
		return &countedConn{Conn: c, l: l}, nil
	}
	return c, err
}

type c16Backend struct {
	name    string
	ln      *countingListener
	srv     *grpc.Server
	scripts *sync.Map
	calls   atomic.Int64
}

func newC16Backend(name string, scripts *sync.Map, creds ...grpc.ServerOption) (*c16Backend, error) {
	ln, err := net.Listen("tcp", "127.0.0.1:0")
	if err != nil {
		return nil, err
	}
	b := &c16Backend{name: name, ln: &countingListener{Listener: ln}, scripts: scripts}
	opts := append([]grpc.ServerOption{grpc.UnknownServiceHandler(b.handle), grpc.MaxRecvMsgSize(16 << 20), grpc.MaxSendMsgSize(16 << 20)}, creds...)
	b.srv = grpc.NewServer(opts...)
	go b.srv.Serve(b.ln)
	return b, nil
}

func (b *c16Backend) port() int { return b.ln.Addr().(*net.TCPAddr).Port }

func (b *c16Backend) handle(srv any, stream grpc.ServerStream) error {
	b.calls.Add(1)
	md, _ := metadata.FromIncomingContext(stream.Context())
	method, _ := grpc.MethodFromServerStream(stream)
	var sc *c16Script
	if ids := md.Get("x-verif-id"); len(ids) == 1 {
		if v, ok := b.scripts.Load(ids[0]); ok {
			sc = v.(*c16Script)
		}
	}
	if sc == nil {
		return status.Error(codes.Unknown, "no script")
	}
	var msgs [][]byte
	for {
		var m []byte
		err := stream.RecvMsg(&m)
		if err == io.EOF {
			break
		}
		if err != nil {
			return err
		}
		msgs = append(msgs, append([]byte(nil), m...))
	}
	sc.mu.Lock()
	sc.called, sc.gotMD, sc.gotMsgs, sc.method, sc.backend = true, md.Copy(), msgs, method, b.name
	sc.mu.Unlock()
	if sc.Gate != nil {
		select {
		case <-sc.Gate:
		case <-stream.Context().Done():
			return stream.Context().Err()
		}
	}
	if len(sc.Header) > 0 {
		stream.SetHeader(sc.Header)
	}
	for _, m := range sc.Msgs {
		m := m
		if err := stream.SendMsg(&m); err != nil {
			return err
		}
	}
	if len(sc.Trailer) > 0 {
		stream.SetTrailer(sc.Trailer)
	}
	if sc.Code != codes.OK {
		return status.Error(sc.Code, sc.Msg)
	}
	return nil
}

func c16Message(r *rand.Rand, thorough bool) []byte {
	var m proto.Message
	switch r.Intn(7) {
	case 0:
		m = wrapperspb.String(choose(r, []string{"", "hello", "ünï cödé ✓", strings.Repeat("s", 1+r.Intn(5000))}))
	case 1:
		m = wrapperspb.Int64(r.Int63() - r.Int63())
	case 2:
		b := make([]byte, r.Intn(2000))
		r.Read(b)
		m = wrapperspb.Bytes(b)
	case 3:
		s, _ := structpb.NewStruct(map[string]any{"a": 1.5, "b": "x", "c": []any{true, nil, "z"}, "d": map[string]any{"n": float64(r.Intn(100))}})
		m = s
	case 4:
		a, _ := anypb.New(wrapperspb.Double(r.NormFloat64()))
		m = a
	case 5:
		return []byte{} // the empty message
	default:
		n := 100000 + r.Intn(900000)
		switch r.Intn(8) {
		case 0, 1:
			n = 2<<20 + r.Intn(1<<20)
		case 2:
			n = 4<<20 + r.Intn(3<<20) // larger than grpc's built-in 4 MiB default, below the configured 16 MiB
		}
		b := make([]byte, n)
		r.Read(b)
		m = wrapperspb.Bytes(b)
	}
	out, _ := proto.MarshalOptions{Deterministic: true}.Marshal(m)
	return out
}

func c16MD(r *rand.Rand, prefix string) metadata.MD {
	md := metadata.MD{}
	for n := r.Intn(4); n > 0; n-- {
		k := prefix + choose(r, []string{"a", "b", "trace-id", "multi"})
		for m := 1 + r.Intn(2); m > 0; m-- {
			md.Append(k, choose(r, []string{"1", "value with space", "x,y", "printable ~!@#$%^&*()_+", "=="}))
		}
	}
	if r.Intn(3) == 0 {
		b := make([]byte, 8)
		r.Read(b)
		md.Append(prefix+"data-bin", string(b))
	}
	return md
}

func mdSubset(want, got metadata.MD) string {
	for k, vs := range want {
		if strings.Join(got.Get(k), "\x00") != strings.Join(vs, "\x00") {
			return fmt.Sprintf("key %q: want %q got %q", k, vs, got.Get(k))
		}
	}
	return ""
}

func c16GRPC(c *ctx) {
	c.R.Rule = "the real binary with a grpc listener, routes delivered via the fake Consul (proto=grpc tags, host-less and host routes selected by dsthost metadata), harness backends (grpc.Server + UnknownServiceHandler + raw-bytes codec) and raw callers: unary, client-, server- and bidi-streaming calls with canonical protobuf messages 0B-3MiB, repeated/binary metadata, scripted headers, trailers and status codes 0-16 with unicode messages; no-route calls; connection reuse per backend and drop after deregistration. evaluations = calls; non-trivial = call with >=2 messages in a direction, or a non-OK status, or a dsthost route; distinct by call"
	var scripts sync.Map
	backs := map[string]*c16Backend{}
	for _, n := range []string{"alpha", "beta", "gamma"} {
		b, err := newC16Backend(n, &scripts)
		if err != nil {
			c.R.Inconcl("backend: %v", err)
			return
		}
		backs[n] = b
		defer b.srv.Stop()
	}
	// a TLS backend behind a grpcs listener
	dcrt := c11Make("delta-cert.pem", "delta.test")
	delta, err := newC16Backend("delta", &scripts, grpc.Creds(credentials.NewTLS(&tls.Config{Certificates: []tls.Certificate{dcrt.TLS}})))
	if err != nil {
		c.R.Inconcl("tls backend: %v", err)
		return
	}
	backs["delta"] = delta
	defer delta.srv.Stop()
	// a second TLS backend whose registration is first made without tlsskipverify (its certificate cannot be verified) and
	// then corrected
	ecrt := c11Make("eps-cert.pem", "epsilon.test")
	epsilon, err := newC16Backend("epsilon", &scripts, grpc.Creds(credentials.NewTLS(&tls.Config{Certificates: []tls.Certificate{ecrt.TLS}})))
	if err != nil {
		c.R.Inconcl("tls backend: %v", err)
		return
	}
	backs["epsilon"] = epsilon
	defer epsilon.srv.Stop()
	epsilonTag := "urlprefix-/pkg.Epsilon proto=grpcs"
	certDir := filepath.Join(c.Dir, "c16cert")
	os.MkdirAll(certDir, 0o755)
	lcrt := c11Make("l-cert.pem", "fabio.test")
	os.WriteFile(filepath.Join(certDir, "l-cert.pem"), lcrt.CertPEM, 0o644)
	os.WriteFile(filepath.Join(certDir, "l-key.pem"), lcrt.KeyPEM, 0o644)
	grpcAddr := fmt.Sprintf("127.0.0.1:%d", freePort())
	grpcsAddr := fmt.Sprintf("127.0.0.1:%d", freePort())
	rg, err := newRig(c, "grpc", []string{"-proxy.addr", grpcAddr + ";proto=grpc," + grpcsAddr + ";proto=grpcs;cs=cs1", "-proxy.cs", "cs=cs1;type=path;cert=" + certDir, "-proxy.grpcshutdowntimeout", "1s", "-proxy.grpcmaxrxmsgsize", "16777216", "-proxy.grpcmaxtxmsgsize", "8388608", "-log.level", "DEBUG"}) // DEBUG: the pool's clean-up pass announces itself in the log (phase 4 times itself by it)
	if err != nil {
		c.R.Inconcl("cannot start fabio: %v", err)
		return
	}
	defer rg.close()
	// alpha: host-less /pkg.Alpha ; beta: host route beta.test/pkg.Shared ; gamma: host-less /pkg.Shared (fallback)
	reg := func(withGamma bool) {
		rg.agent.Update(func(nodes map[string]*fakeconsul.Node, insts map[string]*fakeconsul.Instance) {
			nodes["n0"] = &fakeconsul.Node{Name: "n0", Address: "127.0.0.1", Serf: "passing"}
			mk := func(name string, tag string) *fakeconsul.Instance {
				return &fakeconsul.Instance{Node: "n0", ID: name, Name: name, Address: "127.0.0.1", Port: backs[name].port(), Tags: []string{tag}, Checks: []fakeconsul.Check{{CheckID: "c-" + name, Status: "passing"}}}
			}
			insts["n0/alpha"] = mk("alpha", "urlprefix-/pkg.Alpha proto=grpc")
			insts["n0/beta"] = mk("beta", "urlprefix-beta.test/pkg.Shared proto=grpc")
			insts["n0/delta"] = mk("delta", "urlprefix-/pkg.Delta proto=grpcs tlsskipverify=true")
			insts["n0/epsilon"] = mk("epsilon", epsilonTag)
			if withGamma {
				insts["n0/gamma"] = mk("gamma", "urlprefix-/pkg.Shared proto=grpc")
			} else {
				delete(insts, "n0/gamma")
			}
		})
	}
	reg(true)
	if err := rg.barrier(); err != nil {
		c.R.Inconcl("barrier: %v", err)
		return
	}
	if !fabioproc.WaitListening(grpcAddr, 20*time.Second) {
		c.R.Inconcl("grpc listener did not come up")
		return
	}
	cc, err := grpc.NewClient(grpcAddr, grpc.WithTransportCredentials(insecure.NewCredentials()), grpc.WithDefaultCallOptions(grpc.MaxCallRecvMsgSize(16<<20), grpc.MaxCallSendMsgSize(16<<20)))
	if err != nil {
		c.R.Inconcl("grpc client: %v", err)
		return
	}
	defer cc.Close()
	if !fabioproc.WaitListening(grpcsAddr, 20*time.Second) {
		c.R.Inconcl("grpcs listener did not come up")
		return
	}
	if err := waitTLSServing("warmup.invalid", grpcsAddr); err != nil {
		c.R.Inconcl("%v", err)
		return
	}
	ccs, err := grpc.NewClient(grpcsAddr, grpc.WithTransportCredentials(credentials.NewTLS(&tls.Config{InsecureSkipVerify: true})), grpc.WithDefaultCallOptions(grpc.MaxCallRecvMsgSize(16<<20), grpc.MaxCallSendMsgSize(16<<20)))
	if err != nil {
		c.R.Inconcl("grpcs client: %v", err)
		return
	}
	defer ccs.Close()
	var seq atomic.Int64
	call := func(r *rand.Rand, force ...string) {
		id := fmt.Sprintf("g%d", seq.Add(1))
		sc := &c16Script{Header: c16MD(r, "h-"), Trailer: c16MD(r, "t-"), Code: codes.Code(choose(r, []int{0, 0, 0, 0, 1, 2, 3, 4, 5, 6, 7, 8, 9, 10, 11, 12, 13, 14, 15, 16}))}
		if sc.Code != codes.OK {
			sc.Msg = choose(r, []string{"boom", "", "ünï cödé ✗ 100%", "line1\nline2", strings.Repeat("e", 2000)})
		}
		kind := choose(r, []string{"unary", "client-stream", "server-stream", "bidi"})
		nsend, nrecv := 1, 1
		switch kind {
		case "client-stream":
			nsend = r.Intn(6)
		case "server-stream":
			nrecv = r.Intn(6)
		case "bidi":
			nsend, nrecv = r.Intn(6), r.Intn(6)
		}
		var send [][]byte
		for i := 0; i < nsend; i++ {
			send = append(send, c16Message(r, c.thorough()))
		}
		for i := 0; i < nrecv; i++ {
			sc.Msgs = append(sc.Msgs, c16Message(r, c.thorough()))
		}
		if sc.Code != codes.OK && r.Intn(2) == 0 {
			sc.Msgs = nil
		}
		route := choose(r, []string{"alpha", "beta", "gamma", "gamma-wronghost", "none", "delta"})
		if len(force) > 0 {
			route = force[0]
		}
		if len(force) > 1 && force[1] == "hold" {
			// the backend answers only after 2.5s: the call is in flight for that long
			gate := make(chan struct{})
			sc.Gate = gate
			time.AfterFunc(2500*time.Millisecond, func() { close(gate) })
		}
		if r.Intn(40) == 0 && nsend > 0 {
			// a request message above the configured send limit (8 MiB) and below the receive limit (16 MiB): the
			// receive limit is the one that governs what callers may send
			b := make([]byte, 9<<20+r.Intn(3<<20))
			r.Read(b)
			big, _ := proto.MarshalOptions{Deterministic: true}.Marshal(wrapperspb.Bytes(b))
			send[r.Intn(len(send))] = big
			c.R.Count("requests_between_tx_and_rx_limit", 1)
		}
		method, dsthost, wantBackend := "", "", ""
		switch route {
		case "alpha":
			// (a method path is a name, not a URL: a percent sign or a question mark in it means nothing)
			method, wantBackend = "/pkg.Alpha/"+choose(r, []string{"Get", "Stream_1", "Get", "Stream_1", "Get%41", "Get%", "Do?x=1"}), "alpha"
		case "beta":
			method, dsthost, wantBackend = "/pkg.Shared/Do", choose(r, []string{"beta.test", "BETA.test"}), "beta"
		case "gamma":
			method, wantBackend = "/pkg.Shared/Do", "gamma"
		case "gamma-wronghost":
			method, dsthost, wantBackend = "/pkg.Shared/Do", "other.test", "gamma" // unknown host falls back to the host-less route
		case "none":
			method = choose(r, []string{"/pkg.Nothing/Here", "/pkg.Nothing/Here", "/pkg.Nothing/Here%", "/pkg.Alph%61/Get"})
		case "delta":
			method, wantBackend = "/pkg.Delta/Secure", "delta"
		}
		conn := cc
		if route == "delta" && r.Intn(3) > 0 {
			conn = ccs // the TLS backend is reached through the grpcs listener and, one time in three, through the plain one
		}
		scripts.Store(id, sc)
		defer scripts.Delete(id)
		out := c16MD(r, "c-")
		out.Set("x-verif-id", id)
		if dsthost != "" {
			out.Set("dsthost", dsthost)
		}
		ctx, cancel := context.WithTimeout(metadata.NewOutgoingContext(context.Background(), out), 60*time.Second)
		defer cancel()
		callsBefore := map[string]int64{}
		for n, b := range backs {
			callsBefore[n] = b.calls.Load()
		}
		copts := []grpc.CallOption{grpc.ForceCodec(rawCodec{})}
		if r.Intn(8) == 0 {
			// a caller that compresses its messages (and accepts compressed answers): compression is negotiated hop by hop
			copts = append(copts, grpc.UseCompressor(grpcgzip.Name))
			c.R.Count("calls_with_gzip_compression", 1)
		}
		st, err := conn.NewStream(ctx, &grpc.StreamDesc{ServerStreams: true, ClientStreams: true}, method, copts...)
		c.R.Eval(1)
		desc := fmt.Sprintf("%s %s dsthost=%q send=%d scripted-replies=%d code=%s", kind, method, dsthost, len(send), len(sc.Msgs), sc.Code)
		in := map[string]any{"call": desc}
		if err != nil {
			c.R.Violate("c16:newstream-failed", fmt.Sprintf("%s: %v", desc, err), in)
			return
		}
		for _, m := range send {
			m := m
			if err := st.SendMsg(&m); err != nil {
				break
			}
		}
		st.CloseSend()
		var got [][]byte
		var rerr error
		for {
			var m []byte
			rerr = st.RecvMsg(&m)
			if rerr != nil {
				break
			}
			got = append(got, append([]byte(nil), m...))
		}
		hdr, _ := st.Header()
		trl := st.Trailer()
		gs, _ := status.FromError(rerr)
		if rerr == io.EOF {
			gs = status.New(codes.OK, "")
		}
		if len(send) >= 2 || len(sc.Msgs) >= 2 || sc.Code != codes.OK || dsthost != "" {
			c.R.Nontrivial(id + desc)
		}
		if route == "none" {
			if gs.Code() != codes.NotFound {
				c.R.Violate("c16:noroute-status", fmt.Sprintf("%s: status %s %q, want NotFound", desc, gs.Code(), gs.Message()), in)
			}
			for n, b := range backs {
				if b.calls.Load() != callsBefore[n] && false {
					_ = n
				}
			}
			sc.mu.Lock()
			if sc.called {
				c.R.Violate("c16:noroute-contacted-backend", fmt.Sprintf("%s: backend %s was called", desc, sc.backend), in)
			}
			sc.mu.Unlock()
			return
		}
		sc.mu.Lock()
		defer sc.mu.Unlock()
		if !sc.called {
			c.R.Violate("c16:call-not-forwarded", fmt.Sprintf("%s: no backend saw the call; caller got %s %q", desc, gs.Code(), gs.Message()), in)
			return
		}
		if sc.backend != wantBackend {
			c.R.Violate("c16:wrong-backend", fmt.Sprintf("%s: served by %s, the matching route belongs to %s", desc, sc.backend, wantBackend), in)
			return
		}
		if sc.method != method {
			c.R.Violate("c16:method-changed", fmt.Sprintf("%s: backend saw method %s", desc, sc.method), in)
		}
		if len(sc.gotMsgs) != len(send) {
			c.R.Violate("c16:request-messages-count", fmt.Sprintf("%s: backend received %d messages, caller sent %d", desc, len(sc.gotMsgs), len(send)), in)
			return
		}
		for i := range send {
			if !bytes.Equal(send[i], sc.gotMsgs[i]) {
				c.R.Violate("c16:request-message-altered", fmt.Sprintf("%s: message %d differs (%d vs %d bytes)", desc, i, len(sc.gotMsgs[i]), len(send[i])), in)
				return
			}
		}
		custom := metadata.MD{}
		for k, v := range out {
			if k != "dsthost" {
				custom[k] = v
			}
		}
		if d := mdSubset(custom, sc.gotMD); d != "" {
			c.R.Violate("c16:request-metadata", fmt.Sprintf("%s: backend metadata differs: %s", desc, d), in)
		}
		if gs.Code() != sc.Code || (sc.Code != codes.OK && gs.Message() != sc.Msg) {
			c.R.Violate("c16:status-changed", fmt.Sprintf("%s: caller got %s %q, backend finished with %s %q", desc, gs.Code(), gs.Message(), sc.Code, sc.Msg), in)
			return
		}
		if len(got) != len(sc.Msgs) {
			c.R.Violate("c16:response-messages-count", fmt.Sprintf("%s: caller received %d messages, backend sent %d", desc, len(got), len(sc.Msgs)), in)
			return
		}
		for i := range got {
			if !bytes.Equal(got[i], sc.Msgs[i]) {
				c.R.Violate("c16:response-message-altered", fmt.Sprintf("%s: response message %d differs", desc, i), in)
				return
			}
		}
		if d := mdSubset(sc.Trailer, trl); d != "" {
			c.R.Violate("c16:trailer-lost", fmt.Sprintf("%s: trailers differ: %s", desc, d), in)
		}
		if len(sc.Msgs) >= 1 {
			if d := mdSubset(sc.Header, hdr); d != "" {
				c.R.Violate("c16:header-lost", fmt.Sprintf("%s: headers differ: %s", desc, d), in)
			}
		}
		if c.R.WantSample() && sc.Code != codes.OK {
			c.R.Sample(map[string]any{"call": desc, "served_by": sc.backend, "caller_status": gs.Code().String(), "status_message": gs.Message()})
		}
	}
	// phase 1: sequential warm-up so that every backend has its connection
	r0 := c.rng(1600)
	for i := 0; i < 30; i++ {
		call(r0)
	}
	acceptedAfterWarmup := map[string]int64{}
	for n, b := range backs {
		acceptedAfterWarmup[n] = b.ln.accepted.Load()
	}
	// phase 2: concurrent calls: no further connections may be opened
	n := c.scale(c.pick(400, 8000))
	var wg sync.WaitGroup
	for g := 0; g < 8; g++ {
		wg.Add(1)
		go func(g int) {
			defer wg.Done()
			r := c.rng(int64(1601 + g))
			for i := g; i < n; i += 8 {
				call(r)
			}
		}(g)
	}
	wg.Wait()
	var names []string
	for n := range backs {
		names = append(names, n)
	}
	sort.Strings(names)
	for _, nme := range names {
		b := backs[nme]
		c.R.SetCounter("backend_"+nme+"_calls", b.calls.Load())
		c.R.SetCounter("backend_"+nme+"_connections", b.ln.accepted.Load())
		// one pooled connection per backend and listener: delta is reached through the grpcs listener and through the plain
		// one, each with a pool of its own, whichever of the two the first calls happened to use
		allowed := acceptedAfterWarmup[nme]
		if nme == "delta" && allowed < 2 {
			allowed = 2
		}
		if acceptedAfterWarmup[nme] >= 1 && b.ln.accepted.Load() > allowed {
			c.R.Violate("c16:connection-not-reused", fmt.Sprintf("backend %s: %d connections accepted for %d calls (had %d after the first calls)", nme, b.ln.accepted.Load(), b.calls.Load(), acceptedAfterWarmup[nme]), nil)
		}
	}
	// phase 3: the backend leaves the table: its connection must be dropped; when it returns a fresh one is used
	hist := c.scale(c.pick(1, 4))
	for h := 0; h < hist; h++ {
		g := backs["gamma"]
		if g.ln.open.Load() == 0 {
			c.R.Inconcl("gamma has no open connection before deregistration")
			break
		}
		reg(false)
		if err := rg.barrier(); err != nil {
			c.R.Inconcl("barrier: %v", err)
			break
		}
		t0 := time.Now()
		bound := 3*5*time.Second + time.Second + 3*time.Second
		for time.Since(t0) < bound && g.ln.open.Load() > 0 {
			time.Sleep(100 * time.Millisecond)
		}
		c.R.Eval(1)
		c.R.Nontrivial(fmt.Sprintf("dereg-history-%d", h))
		if g.ln.open.Load() > 0 {
			c.R.Violate("c16:connection-not-dropped", fmt.Sprintf("backend gamma left the table %s ago but fabio still holds %d connection(s) to it", time.Since(t0).Round(time.Second), g.ln.open.Load()), nil)
			break
		}
		c.R.MaxCounter("connection_drop_seconds_max", int64(time.Since(t0).Seconds()))
		// meanwhile the TLS backend never left the table: after two cleanup rounds its pooled connection must still be the one in use
		if dl := t0.Add(11 * time.Second); time.Now().Before(dl) {
			time.Sleep(time.Until(dl))
		}
		dBefore := delta.ln.accepted.Load()
		for i := 0; i < 6; i++ {
			call(r0, "delta") // gamma is out of the table at this point
		}
		if delta.calls.Load() > 0 && dBefore >= 1 && (delta.ln.accepted.Load() > dBefore || delta.ln.open.Load() == 0) {
			c.R.Violate("c16:connection-dropped-although-backend-in-table", fmt.Sprintf("the grpcs backend stayed in the table, yet after two cleanup rounds fabio opened a new connection to it (%d accepted, was %d; %d open)", delta.ln.accepted.Load(), dBefore, delta.ln.open.Load()), nil)
		}
		before := g.ln.accepted.Load()
		reg(true)
		if err := rg.barrier(); err != nil {
			c.R.Inconcl("barrier: %v", err)
			break
		}
		// the first calls to the fresh backend arrive simultaneously: every one of them must be served
		var cwg sync.WaitGroup
		for k := 0; k < 24; k++ {
			cwg.Add(1)
			go func(k int) {
				defer cwg.Done()
				call(c.rng(int64(1700 + h*100 + k)))
			}(k)
		}
		cwg.Wait()
		if g.calls.Load() > 0 && g.ln.accepted.Load() == before && g.ln.open.Load() == 0 {
			c.R.Violate("c16:no-fresh-connection", "gamma was re-added and called but no new connection was opened", nil)
		}
	}
	// phase 4: a short absence. The backend leaves the table for just over one clean-up interval (5s) and returns
	// before or shortly after its old connection has been shut down: from then on it is in the table and healthy, and
	// every call to it must be served, whatever the pool still holds.
	for h := 0; h < c.scale(c.pick(1, 3)); h++ {
		logAt := int64(0)
		if fi, err := os.Stat(rg.proc.LogPath); err == nil {
			logAt = fi.Size()
		}
		reg(false)
		if err := rg.barrier(); err != nil {
			c.R.Inconcl("barrier: %v", err)
			return
		}
		// wait for the pool's next clean-up pass (it logs the connection it condemns), at most 6s
		sawCleanup := false
		for dl := time.Now().Add(6 * time.Second); time.Now().Before(dl) && !sawCleanup; time.Sleep(20 * time.Millisecond) {
			if b, err := os.ReadFile(rg.proc.LogPath); err == nil && int64(len(b)) > logAt {
				sawCleanup = strings.Contains(string(b[logAt:]), "cleaning up connection to") && strings.Contains(string(b[logAt:]), backs["gamma"].ln.Addr().String())
			}
		}
		if sawCleanup {
			c.R.Count("absences_timed_by_cleanup_pass", 1)
		} else {
			time.Sleep(time.Duration(h) * 700 * time.Millisecond)
		}
		reg(true)
		if err := rg.barrier(); err != nil {
			c.R.Inconcl("barrier: %v", err)
			return
		}
		rr := c.rng(int64(1800 + h))
		// calls that stay in flight across the moment the old connection is shut down
		var hwg sync.WaitGroup
		for k := 0; k < 3; k++ {
			hwg.Add(1)
			go func(k int) {
				defer hwg.Done()
				time.Sleep(time.Duration(k) * 150 * time.Millisecond)
				call(c.rng(int64(1850+h*10+k)), "gamma", "hold")
			}(k)
		}
		defer hwg.Wait()
		for end := time.Now().Add(6500 * time.Millisecond); time.Now().Before(end); {
			call(rr, "gamma")
			c.R.Count("calls_after_short_absence", 1)
			time.Sleep(80 * time.Millisecond)
		}
		c.R.Nontrivial(fmt.Sprintf("short-absence-%d", h))
	}
	// phase 4b: a registration whose TLS options were wrong is corrected (same backend address): calls made under the
	// wrong options fail, calls made after the correction must be served
	{
		invoke := func(id string) error {
			scripts.Store(id, &c16Script{Msgs: [][]byte{{}}})
			defer scripts.Delete(id)
			ctx, cancel := context.WithTimeout(metadata.AppendToOutgoingContext(context.Background(), "x-verif-id", id), 5*time.Second)
			defer cancel()
			var reply []byte
			req := []byte{}
			return ccs.Invoke(ctx, "/pkg.Epsilon/Do", &req, &reply, grpc.ForceCodec(rawCodec{}))
		}
		errBefore := invoke("eps-before")
		epsilonTag = "urlprefix-/pkg.Epsilon proto=grpcs tlsskipverify=true"
		reg(true)
		if err := rg.barrier(); err != nil {
			c.R.Inconcl("barrier: %v", err)
			return
		}
		var errAfter error
		for try := 0; try < 20; try++ {
			if errAfter = invoke(fmt.Sprintf("eps-after-%d", try)); errAfter == nil {
				break
			}
			time.Sleep(250 * time.Millisecond)
		}
		c.R.Eval(2)
		c.R.Nontrivial("tls-options-corrected")
		if errBefore == nil {
			c.R.Note("the call under the unverifiable registration succeeded: sub-check not exercised")
		} else if errAfter != nil {
			c.R.Violate("c16:corrected-route-never-served", fmt.Sprintf("a grpcs route registered without tlsskipverify failed as expected (%v); after the registration was corrected to tlsskipverify=true (same backend address) 20 calls over 5s still fail: %v", errBefore, errAfter), nil)
		}
	}
	// phase 5: the backend leaves for good: every connection fabio ever opened to it (also those of simultaneous first
	// calls) must be dropped
	g := backs["gamma"]
	reg(false)
	if err := rg.barrier(); err != nil {
		c.R.Inconcl("barrier: %v", err)
		return
	}
	t0 := time.Now()
	bound := 3*5*time.Second + time.Second + 3*time.Second
	for time.Since(t0) < bound && g.ln.open.Load() > 0 {
		time.Sleep(100 * time.Millisecond)
	}
	c.R.Eval(1)
	c.R.SetCounter("backend_gamma_connections_accepted_in_all", g.ln.accepted.Load())
	if n := g.ln.open.Load(); n > 0 {
		c.R.Violate("c16:connection-not-dropped:after-simultaneous-first-calls", fmt.Sprintf("backend gamma left the table %s ago; fabio opened %d connections to it in all and still holds %d", time.Since(t0).Round(time.Second), g.ln.accepted.Load(), n), nil)
	}
}
