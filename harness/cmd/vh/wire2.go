package main

import (
	"bytes"
	stdgzip "compress/gzip"
	"fmt"
	"io"
	"math/rand"
	"net/url"
	"regexp"
	"strings"
	"sync"
	"sync/atomic"
	"time"

	"verif/harness/internal/fabioproc"
	"verif/harness/internal/rawhttp"
)

func init() {
	register("c13-wire", "C13", c13Wire)
	register("c17-wire", "C17", c17Wire)
}

// c13Wire: the redirect templates through the real binary, Location read from the wire.
func c13Wire(c *ctx) {
	c.R.Rule = "every redirect template form x strip/prepend through the real binary (plain and TLS listeners, routes via the fake Consul KV): status and Location read from the wire vs the reference builder, upstream hit counter must stay zero; self-pointing redirects with a fallback route. evaluations = requests; non-trivial = template with $path/$host and an encoded path or strip/prepend; distinct by (route, request)"
	rg, err := newC07Rig(c, c07HdrCfg{Name: "redir"}, nil)
	if err != nil {
		c.R.Inconcl("cannot start the rig: %v", err)
		return
	}
	defer rg.close()
	type rr struct {
		cs   c13Case
		host string
	}
	var routes []rr
	var lines []string
	k := 0
	for _, tm := range c13Templates {
		for _, sp := range [][2]string{{"", ""}, {"/p", ""}, {"", "/pre"}, {"/p/q", "/pre/x"}} {
			code := []string{"301", "302", "307", "308"}[k%4]
			host := fmt.Sprintf("w%d.test", k)
			routes = append(routes, rr{c13Case{Tmpl: tm, Code: code, Strip: sp[0], Prepend: sp[1]}, host})
			opts := []string{"redirect=" + code}
			if sp[0] != "" {
				opts = append(opts, "strip="+sp[0])
			}
			if sp[1] != "" {
				opts = append(opts, "prepend="+sp[1])
			}
			lines = append(lines, fmt.Sprintf("route add w%d %s/ %s opts \"%s\"", k, host, tm, strings.Join(opts, " ")))
			k++
		}
	}
	lines = append(lines, "route add selfp self.test/ http://self.test$path opts \"redirect=301\"", "route add selfs selfs.test/ https://selfs.test$path opts \"redirect=301\"",
		fmt.Sprintf("route add fallback / http://%s/", rg.up.Addr()))
	rg.rg.setManual(strings.Join(lines, "\n"))
	if err := rg.rg.barrier(); err != nil {
		c.R.Inconcl("barrier: %v", err)
		return
	}
	n := c.scale(c.pick(3000, 60000))
	var seq atomic.Int64
	var wg sync.WaitGroup
	for g := 0; g < 8; g++ {
		wg.Add(1)
		go func(g int) {
			defer wg.Done()
			r := c.rng(int64(1300 + g))
			for i := g; i < n; i += 8 {
				id := fmt.Sprintf("rd-%d", seq.Add(1))
				c.R.Eval(1)
				isTLS := r.Intn(3) == 0
				dial := rawhttp.Dial{Addr: rg.plain, Timeout: 20 * time.Second}
				if isTLS {
					dial = rawhttp.Dial{Addr: rg.tlsA, TLS: true, SNI: "fabio.test", Timeout: 20 * time.Second}
				}
				if r.Intn(8) == 0 {
					// self-pointing redirect: the fallback must serve
					host, scheme := "self.test", "http"
					if r.Intn(2) == 0 {
						host, scheme = "selfs.test", "https"
					}
					own := "http"
					if isTLS {
						own = "https"
					}
					path := choose(r, []string{"/", "/a/b", "/x%2Fy"})
					raw := fmt.Sprintf("GET %s HTTP/1.1\r\nHost: %s\r\nX-Verif-Id: %s\r\nConnection: close\r\n\r\n", path, host, id)
					resp := rawhttp.Do(dial, []byte(raw), "GET")
					hit := rg.up.Take(id) != nil
					vin := map[string]any{"host": host, "path": path, "tls": isTLS}
					if resp.Err != nil {
						c.R.Violate("c13w:request-failed", resp.Err.Error(), vin)
						continue
					}
					c.R.Nontrivial(fmt.Sprintf("self %s %s %v", host, path, isTLS))
					if own == scheme {
						if !hit || resp.Status != 200 {
							c.R.Violate("c13w:self-redirect-not-skipped", fmt.Sprintf("%s request to %s%s redirects to itself: status %d Location %q, want the fallback route", own, host, path, resp.Status, resp.Get("Location")), vin)
						}
					} else if want := scheme + "://" + host + path; resp.Status != 301 || len(resp.Get("Location")) != 1 || resp.Get("Location")[0] != want || hit {
						c.R.Violate("c13w:redirect-wrong", fmt.Sprintf("%s request to %s%s: status %d Location %q upstream hit %v, want 301 %q", own, host, path, resp.Status, resp.Get("Location"), hit, want), vin)
					}
					continue
				}
				rt := routes[r.Intn(len(routes))]
				cs := rt.cs
				cs.Host = rt.host
				var p strings.Builder
				if cs.Strip != "" && r.Intn(5) > 0 {
					p.WriteString(cs.Strip)
				}
				for m := r.Intn(4); m > 0; m-- {
					p.WriteString("/" + choose(r, []string{"a", "%2F", "%20", "a%2Fb", "x.y", "p", "%C3%A9", "a;b", "@"}))
				}
				if p.Len() == 0 || r.Intn(4) == 0 {
					p.WriteString("/")
				}
				cs.RawPath = p.String()
				cs.Query = choose(r, []string{"", "a=1", "a=1&b=2", "q=%26x"})
				cs.TLS = isTLS
				target := cs.RawPath
				if cs.Query != "" {
					target += "?" + cs.Query
				}
				// a redirect route answers every request from the request alone, also one that asks for an event stream or a
				// websocket upgrade
				kind := choose(r, []string{"", "", "", "sse", "websocket"})
				raw := fmt.Sprintf("GET %s HTTP/1.1\r\nHost: %s\r\nX-Verif-Id: %s\r\nConnection: close\r\n\r\n", target, cs.Host, id)
				switch kind {
				case "sse":
					raw = fmt.Sprintf("GET %s HTTP/1.1\r\nHost: %s\r\nX-Verif-Id: %s\r\nAccept: text/event-stream\r\nConnection: close\r\n\r\n", target, cs.Host, id)
				case "websocket":
					raw = fmt.Sprintf("GET %s HTTP/1.1\r\nHost: %s\r\nX-Verif-Id: %s\r\nUpgrade: websocket\r\nConnection: Upgrade\r\nSec-WebSocket-Key: dGhlIHNhbXBsZSBub25jZQ==\r\nSec-WebSocket-Version: 13\r\n\r\n", target, cs.Host, id)
				}
				if kind != "" {
					c.R.Count("redirect_requests_"+kind, 1)
				}
				resp := rawhttp.Do(dial, []byte(raw), "GET")
				hit := rg.up.Take(id) != nil
				vin := map[string]any{"Case": cs}
				if resp.Err != nil {
					c.R.Violate("c13w:request-failed", resp.Err.Error(), vin)
					continue
				}
				u, _ := url.ParseRequestURI(target)
				esc := cs.RawPath
				if u != nil {
					esc = u.EscapedPath()
				}
				want := c13Expect(&cs, esc)
				own := "http"
				if isTLS {
					own = "https"
				}
				if strings.Contains(cs.Tmpl, "$") && (strings.Contains(cs.RawPath, "%") || cs.Strip != "" || cs.Prepend != "") {
					c.R.Nontrivial(fmt.Sprintf("%+v", cs))
				}
				if base, _, _ := strings.Cut(want, "?"); base == own+"://"+cs.Host+esc {
					continue // points back at the request itself: skipped in favour of the fallback (covered above)
				}
				code := 0
				fmt.Sscanf(cs.Code, "%d", &code)
				if resp.Status != code || len(resp.Get("Location")) != 1 || resp.Get("Location")[0] != want {
					c.R.Violate("c13w:location", fmt.Sprintf("route %s (strip %q prepend %q) request %s: status %d Location %q, want %d %q", cs.Tmpl, cs.Strip, cs.Prepend, target, resp.Status, resp.Get("Location"), code, want), vin)
					continue
				}
				if hit {
					c.R.Violate("c13w:upstream-contacted", "a redirect route contacted the upstream", vin)
				}
				if c.R.WantSample() && strings.Contains(cs.RawPath, "%") {
					c.R.Sample(map[string]any{"route": cs.Tmpl, "request": cs.Host + target, "status": resp.Status, "location": resp.Get("Location")})
				}
			}
		}(g)
	}
	wg.Wait()
}

// c17Wire: compression through the real binary.
func c17Wire(c *ctx) {
	c.R.Rule = "the real binary with -proxy.gzip.contenttype between raw clients and a scripted upstream: content types matching/not matching, upstream-encoded bodies, bodies 0B-1MiB with length/chunked/close framing, status codes, Accept-Encoding variants; gzip-labelled by fabio => allowed and gunzips to the upstream's bytes with a correct length; otherwise bytes identical; status preserved. evaluations = requests; non-trivial = response fabio compressed or had to leave alone although the client accepts gzip; distinct by request"
	expr := `^(text/.*|application/json)(;.*)?$`
	re := regexp.MustCompile(expr)
	rg, err := newC07Rig(c, c07HdrCfg{Name: "gzip"}, []string{"-proxy.gzip.contenttype", expr})
	if err != nil {
		c.R.Inconcl("cannot start the rig: %v", err)
		return
	}
	defer rg.close()
	if !fabioproc.WaitListening(rg.plain, 10*time.Second) {
		c.R.Inconcl("listener")
		return
	}
	n := c.scale(c.pick(2500, 60000))
	var seq, compressed, plain atomic.Int64
	var wg sync.WaitGroup
	for g := 0; g < 12; g++ {
		wg.Add(1)
		go func(g int) {
			defer wg.Done()
			r := c.rng(int64(1700 + g))
			for i := g; i < n; i += 12 {
				id := fmt.Sprintf("gz-%d", seq.Add(1))
				c.R.Eval(1)
				ct := choose(r, []string{"text/html", "text/plain; charset=utf-8", "application/json", "image/png", "application/octet-stream", "application/xml"})
				ae := choose(r, []string{"", "gzip", "gzip", "gzip, deflate, br", "br", "identity", "deflate", "gzip;q=0", "identity, gzip;q=0", "gzip;q=0.5"})
				pre := ""
				if r.Intn(6) == 0 && strings.Contains(ae, "gzip") || r.Intn(10) == 0 && ae == "br" {
					pre = choose(r, []string{"gzip", "br"})
					if !strings.Contains(ae, pre) {
						pre = ""
					}
				}
				sz := r.Intn(4000)
				switch r.Intn(12) {
				case 0:
					sz = 0
				case 1:
					sz = 200000 + r.Intn(800000)
				}
				body := make([]byte, sz)
				if r.Intn(3) > 0 {
					words := []string{"lorem ", "ipsum ", "dolor ", "<b>", "</b>\n", "{\"k\":1},"}
					for o := 0; o < sz; {
						o += copy(body[o:], words[r.Intn(len(words))])
					}
				} else {
					r.Read(body)
				}
				sc := &rawhttp.Script{Status: choose(r, []int{200, 200, 201, 404, 500, 206}), Framing: choose(r, []string{"length", "chunked", "close"}), ChunkSz: 1 + r.Intn(8000), Body: body,
					Headers: []rawhttp.Header{{Name: "Content-Type", Value: ct}, {Name: "X-Up", Value: id}}}
				if pre != "" {
					sc.Headers = append(sc.Headers, rawhttp.Header{Name: "Content-Encoding", Value: pre})
				}
				if r.Intn(8) == 0 {
					sc.Info = []int{103} // an informational response before the final one
					if r.Intn(2) == 0 {
						// early hints written by a handler that had already set its headers carry them too
						sc.InfoHdrs = []rawhttp.Header{{Name: "Content-Type", Value: ct}}
					}
				}
				rg.up.SetScript(id, sc)
				var b strings.Builder
				fmt.Fprintf(&b, "GET /z HTTP/1.1\r\nHost: r0.test\r\nX-Verif-Id: %s\r\nConnection: close\r\n", id)
				if ae != "" {
					fmt.Fprintf(&b, "Accept-Encoding: %s\r\n", ae)
				}
				accept := choose(r, []string{"", "*/*", "text/event-stream"})
				if accept != "" {
					fmt.Fprintf(&b, "Accept: %s\r\n", accept)
				}
				b.WriteString("\r\n")
				resp := rawhttp.Do(rawhttp.Dial{Addr: rg.plain, Timeout: 30 * time.Second}, []byte(b.String()), "GET")
				rg.up.Take(id)
				vin := map[string]any{"content_type": ct, "accept_encoding": ae, "upstream_encoding": pre, "bytes": sz, "framing": sc.Framing, "status": sc.Status, "accept": accept}
				if resp.Err != nil {
					c.R.Violate("c17w:request-failed", fmt.Sprintf("%v (%d bytes read)", resp.Err, len(resp.Body)), vin)
					continue
				}
				if resp.Status != sc.Status {
					c.R.Violate("c17w:status-changed", fmt.Sprintf("status %d, upstream sent %d", resp.Status, sc.Status), vin)
					continue
				}
				ce := strings.Join(resp.Get("Content-Encoding"), ",")
				labelled := ce == "gzip" && pre == ""
				if labelled {
					compressed.Add(1)
					c.R.Nontrivial(id)
					if !c17AcceptsGzip(ae) || !re.MatchString(ct) || accept == "text/event-stream" {
						c.R.Violate("c17w:compressed-although-not-allowed", fmt.Sprintf("response gzip encoded for Accept-Encoding %q, Accept %q, content type %q", ae, accept, ct), vin)
						continue
					}
					if cl := resp.Get("Content-Length"); len(cl) > 0 && cl[0] != fmt.Sprint(len(resp.Body)) {
						c.R.Violate("c17w:stale-content-length", fmt.Sprintf("Content-Length %s, %d bytes on the wire", cl[0], len(resp.Body)), vin)
						continue
					}
					zr, err := stdgzip.NewReader(bytes.NewReader(resp.Body))
					var plainBody []byte
					if err == nil {
						plainBody, err = io.ReadAll(zr)
					}
					if err != nil || !bytes.Equal(plainBody, body) {
						c.R.Violate("c17w:content-changed", fmt.Sprintf("gzip body does not decompress to the upstream's %d bytes (err %v, got %d)", len(body), err, len(plainBody)), vin)
					}
					continue
				}
				plain.Add(1)
				if strings.Contains(ae, "gzip") {
					c.R.Nontrivial(id)
				}
				if ce != pre {
					c.R.Violate("c17w:content-encoding-changed", fmt.Sprintf("Content-Encoding %q, upstream sent %q", ce, pre), vin)
					continue
				}
				if !bytes.Equal(resp.Body, body) {
					c.R.Violate("c17w:passthrough-body-differs", fmt.Sprintf("client got %d bytes, upstream sent %d", len(resp.Body), len(body)), vin)
				}
				if c.R.WantSample() && strings.Contains(ae, "gzip") {
					c.R.Sample(vin)
				}
			}
		}(g)
	}
	wg.Wait()
	c.R.SetCounter("compressed_responses", compressed.Load())
	c.R.SetCounter("uncompressed_responses", plain.Load())
	if compressed.Load() < 100 || plain.Load() < 100 {
		c.R.Inconcl("too few responses: %d compressed, %d uncompressed", compressed.Load(), plain.Load())
	}
	_ = rand.Int
}
