package main

import (
	"bytes"
	"fmt"
	"math"
	"math/rand"
	"net"
	"net/url"
	"strconv"
	"strings"

	"github.com/fabiolb/fabio/registry/consul"
	"github.com/fabiolb/fabio/route"
	"github.com/hashicorp/consul/api"
)

func init() { register("c14-routecmd", "C14", c14RouteCmd) }

type c14Tag struct {
	Text string // full tag incl. prefix
	// expectation when the registration is expressible
	Host, Path string
	Opts       map[string]string // remaining options
	Proto      string
	Weight     string
	Redirect   string // "code,url" or ""
	Safe       bool   // every field is in the safe alphabet => a route must be emitted
	WeightOK   bool
	WeightVal  float64
}

type c14Case struct {
	Name, Addr, NodeAddr string
	Port                 int
	Tags                 []string // all service tags in order
	route                []c14Tag
	other                []string
	safeOther            bool
}

var c14Names = []string{"svc", "my-service", "web_1", "svc with space", "svc\"quote", "sérvice", "a", "tags", "weight", "s\\b"}

// (the last two: link-local addresses with a zone; in a URL the zone is written %25<zone>, RFC 6874)
var c14Addrs = []string{"10.1.2.3", "192.168.0.9", "::1", "2001:db8::1", "fe80::1", "backend.internal", "", "host-1", "fe80::1%eth0", "fe80::1%bce0"}
var c14OtherTags = []string{"v1", "blue", "prod", "a b", "q\"uote", "back\\slash", "comma,inside", "ünï", " padded ", "tab\there", "x=y", "urlprefix", "", "\"", "new\nline"}
var c14Hosts = []string{"", "a.com", "A.Com", "x.y.org:8080", "*.wild.net", "$DC.dc.test"}
var c14Paths = []string{"/", "/foo", "/Foo/Bar", "/a/b/", "/$DC/x"}

// prefixes with control characters: the tag parser splits on blanks only, so tabs and newlines end up inside the command
var c14HostilePaths = []string{"/\thttp://10.6.6.6:1/\nroute\tadd\tevil\ty.com/[a", "/a\nroute del good", "/x\ty", "/a\rb", "/q\"uote", "/[unclosed", "/caf\uFFFD", "/caf\xe9", "/\xff\xfe"}
var c14OptPool = []string{"strip=/foo", "prepend=/p", "host=dst", "host=name.test", "tlsskipverify=true", "allow=ip:10.0.0.0/8", "deny=ip:1.2.3.4", "auth=basic", "register=alias", "pxyproto=true", "unknownopt=1", "flagonly"}
var c14Weights = []string{"0.5", "1", "0", "0.25", "2", "-1", "abc", "Inf", "NaN", "1e400", "", "1e-5", "0x1p-2", "+0.5", ".5", "1_0"}

func genC14(r *rand.Rand) *c14Case {
	cs := &c14Case{Name: choose(r, c14Names), Addr: choose(r, c14Addrs), NodeAddr: choose(r, []string{"10.9.9.9", "node-7"}), Port: choose(r, []int{80, 8080, 0, 65535, 443, 1})}
	if r.Intn(3) > 0 {
		cs.Name = choose(r, c14Names[:3])
	}
	cs.safeOther = true
	n := 1 + r.Intn(3)
	for i := 0; i < n; i++ {
		t := c14Tag{Opts: map[string]string{}, Safe: true}
		t.Host = choose(r, c14Hosts)
		t.Path = choose(r, c14Paths)
		if r.Intn(25) == 0 {
			t.Path = choose(r, c14HostilePaths)
			t.Safe = false
		}
		src := t.Host + t.Path
		if r.Intn(8) == 0 {
			src = ":" + strconv.Itoa(1000+r.Intn(9000)) // tcp style prefix
			t.Host, t.Path = src, ""
		}
		var opts []string
		if r.Intn(2) == 0 {
			for _, o := range subset(r, c14OptPool, 3) {
				kv := strings.SplitN(o, "=", 2)
				if _, dup := t.Opts[kv[0]]; dup {
					continue // one value per option key
				}
				opts = append(opts, o)
				if len(kv) == 2 {
					t.Opts[kv[0]] = kv[1]
				} else {
					t.Opts[kv[0]] = ""
				}
			}
		}
		if r.Intn(3) == 0 {
			t.Proto = choose(r, []string{"tcp", "https", "grpc", "grpcs", "http"})
			opts = append(opts, "proto="+t.Proto)
			if t.Proto == "http" { // not special-cased: stays an ordinary option
				t.Opts["proto"] = "http"
				t.Proto = ""
			}
		}
		if r.Intn(3) == 0 {
			t.Weight = choose(r, c14Weights)
			opts = append(opts, "weight="+t.Weight)
			f, err := strconv.ParseFloat(t.Weight, 64)
			t.WeightOK = err == nil && !math.IsInf(f, 0) && !math.IsNaN(f)
			t.WeightVal = f
			if !t.WeightOK {
				t.Safe = false
			}
		}
		if t.Proto == "" && r.Intn(6) == 0 { // redirect= and proto= both set the destination: not combined
			t.Redirect = choose(r, []string{"301,https://new.test/", "302,https://new.test$path", "303,https://$host$path", "abc,https://x/", "301", "301,", "301,a,b", "301,https://maps.test/?ll=52.5,13.4", "302,https://new.test/a,b$path"})
			opts = append(opts, "redirect="+t.Redirect)
			// the value is <code>,<url>; the url is what follows the first comma and may hold commas of its own
			if !strings.Contains(t.Redirect, ",") || strings.HasSuffix(t.Redirect, ",") || t.Redirect == "301,a,b" {
				t.Safe = false
			}
		}
		r.Shuffle(len(opts), func(i, j int) { opts[i], opts[j] = opts[j], opts[i] })
		sep := choose(r, []string{" ", " ", "  "})
		t.Text = "urlprefix-" + src
		if len(opts) > 0 {
			t.Text += " " + strings.Join(opts, sep)
		}
		cs.route = append(cs.route, t)
	}
	for m := r.Intn(4); m > 0; m-- {
		o := choose(r, c14OtherTags)
		if r.Intn(2) == 0 {
			o = choose(r, c14OtherTags[:3])
		}
		cs.other = append(cs.other, o)
		// what a route command cannot carry: a quote or a line break inside the quoted list, a comma inside one tag, blanks
		// around a tag (they are trimmed when the list is read), an empty tag. A backslash, a TAB, non-ASCII letters can be
		// written verbatim: a registration carrying such a tag next to its routing tags must still be routed.
		if strings.ContainsAny(o, "\"\n\r") || o != strings.TrimSpace(o) || o == "" || strings.Contains(o, ",") {
			cs.safeOther = false
		}
	}
	// interleave
	for _, t := range cs.route {
		cs.Tags = append(cs.Tags, t.Text)
	}
	cs.Tags = append(cs.Tags, cs.other...)
	r.Shuffle(len(cs.Tags), func(i, j int) { cs.Tags[i], cs.Tags[j] = cs.Tags[j], cs.Tags[i] })
	return cs
}

func c14RouteCmd(c *ctx) {
	n := c.scale(c.pick(300000, 8000000))
	c.R.Rule = "generated Consul catalog entries (names with spaces/quotes/unicode, IPv4/IPv6/host addresses, ports, 1-3 urlprefix tags with option strings incl. weight=<ok|abc|Inf|NaN|1e400>, redirect forms, unknown options; 0-3 other tags with quotes, backslashes, commas, control characters) through routecmd.build; every emitted line must be accepted by route.Parse/NewTable and denote the registration; well-formed registrations must be emitted; a whole catalog of mixed entries must still yield a table containing all well-formed services. non-trivial = entry with a hostile tag, weight or name; distinct by entry"
	env := map[string]string{"DC": "dc1"}
	run := func(cs *c14Case) {
		c.R.Eval(1)
		in := map[string]any{"Case": cs}
		svc := &api.CatalogService{ServiceName: cs.Name, ServiceAddress: cs.Addr, Address: cs.NodeAddr, ServicePort: cs.Port, ServiceTags: cs.Tags, Node: "n1", ServiceID: cs.Name + "-1"}
		var lines []string
		if p := safely(func() { lines = consul.VerifBuildRouteCmds(svc, "urlprefix-", env) }); p != "" {
			c.R.Violate("c14:build-panic", p, in)
			return
		}
		hostile := !cs.safeOther || strings.ContainsAny(cs.Name, " \"\\") || cs.Name != strings.ToValidUTF8(cs.Name, "")
		for _, t := range cs.route {
			hostile = hostile || !t.Safe
		}
		if hostile {
			c.R.Nontrivial(fmt.Sprintf("%+v", cs.Tags) + cs.Name)
		}
		addr := cs.Addr
		if addr == "" {
			addr = cs.NodeAddr
		}
		hostport := net.JoinHostPort(addr, strconv.Itoa(cs.Port))
		for _, ln := range lines {
			var defs []*route.RouteDef
			var err error
			if p := safely(func() { defs, err = route.Parse(bytes.NewBufferString(ln)) }); p != "" {
				c.R.Violate("c14:parse-panic", p, in)
				return
			}
			if err != nil || len(defs) != 1 {
				c.R.Violate("c14:emitted-line-rejected:"+c14Why(cs, ln), fmt.Sprintf("fabio's parser rejects the line fabio generated: %q: %v", ln, err), map[string]any{"Case": cs, "Line": ln})
				return
			}
			var terr error
			if p := safely(func() { _, terr = newTable(ln) }); p != "" {
				c.R.Violate("c14:newtable-panic", fmt.Sprintf("line %q: %s", ln, p), in)
				return
			}
			if terr != nil {
				c.R.Violate("c14:emitted-line-not-a-table:"+c14Why(cs, ln), fmt.Sprintf("NewTable rejects generated line %q: %v", ln, terr), map[string]any{"Case": cs, "Line": ln})
				return
			}
			d := defs[0]
			// the line must denote the registration: find the tag it stems from
			var tag *c14Tag
			for i := range cs.route {
				t := &cs.route[i]
				src := strings.ToLower(strings.ReplaceAll(t.Host, "$DC", "dc1")) + strings.ReplaceAll(t.Path, "$DC", "dc1")
				if strings.HasPrefix(t.Host, ":") {
					src = t.Host
				}
				if d.Src == src && c14Denotes(d, t, cs, hostport) == "" {
					tag = t
				}
			}
			if tag == nil {
				why := ""
				for i := range cs.route {
					why += " | " + c14Denotes(d, &cs.route[i], cs, hostport)
				}
				c.R.Violate("c14:line-does-not-denote-registration", fmt.Sprintf("line %q (parsed %+v) matches none of the routing tags %q:%s", ln, *d, cs.Tags, why), map[string]any{"Case": cs, "Line": ln})
				return
			}
		}
		// well-formed registrations must be emitted
		nameSafe := !strings.ContainsAny(cs.Name, " \"\\\t\n") && cs.Name != ""
		if nameSafe && cs.safeOther {
			want := 0
			for _, t := range cs.route {
				if t.Safe {
					want++
				}
			}
			if len(lines) < want {
				c.R.Violate("c14:wellformed-registration-dropped", fmt.Sprintf("%d of the routing tags %q are well-formed but only %d lines were emitted: %q", want, cs.Tags, len(lines), lines), in)
			}
		}
		if c.R.WantSample() && hostile && len(lines) > 0 {
			c.R.Sample(map[string]any{"service": cs.Name, "tags": cs.Tags, "emitted": lines})
		}
	}
	if c.Replay != "" {
		c.R.Inconcl("replay re-runs the whole part with the same seed")
	}
	parallel(c, n, func(r *rand.Rand, i int) {
		run(genC14(r))
		if i%20 == 0 {
			c14Catalog(c, r, env)
		}
	})
}

func c14Why(cs *c14Case, ln string) string {
	switch {
	case strings.ContainsAny(cs.Name, " \"\\"):
		return "service-name"
	case !cs.safeOther:
		return "other-tag"
	}
	for _, t := range cs.route {
		if t.Weight != "" && !t.WeightOK {
			return "weight"
		}
	}
	return "other"
}

// c14Denotes returns "" when the parsed command denotes tag t of registration cs.
func c14Denotes(d *route.RouteDef, t *c14Tag, cs *c14Case, hostport string) string {
	if d.Cmd != route.RouteAddCmd || d.Service != cs.Name {
		return fmt.Sprintf("cmd/service %q %q", d.Cmd, d.Service)
	}
	wantDst := "http://" + hostport + "/"
	switch t.Proto {
	case "tcp":
		wantDst = "tcp://" + hostport
	case "https":
		wantDst = "https://" + hostport
	case "grpc":
		wantDst = "grpc://" + hostport
	case "grpcs":
		wantDst = "grpcs://" + hostport
	}
	wantOpts := map[string]string{}
	for k, v := range t.Opts {
		wantOpts[k] = v
	}
	if t.Redirect != "" {
		p := strings.SplitN(t.Redirect, ",", 2)
		if len(p) != 2 {
			// registered to redirect, but the option names no url: a line that proxies the prefix to the instance
			// instead does not denote this registration (it cannot be expressed: no line at all)
			return fmt.Sprintf("the tag asks for a redirect (%q, no url); a command without the redirect option is not what was registered", t.Redirect)
		}
		wantDst = p[1]
		wantOpts["redirect"] = p[0]
	}
	if zi := strings.IndexByte(hostport, '%'); zi >= 0 && len(strings.SplitN(t.Redirect, ",", 2)) != 2 {
		// an address with a zone: the destination must be that very host, however the '%' is written in the command
		u, err := url.Parse(d.Dst)
		host, _, _ := net.SplitHostPort(hostport)
		if err != nil || u.Hostname() != host || u.Scheme+"://" != wantDst[:strings.Index(wantDst, "//")+2] {
			return fmt.Sprintf("dst %q does not denote the host %q (parsed: %v %v)", d.Dst, host, u, err)
		}
	} else if d.Dst != wantDst {
		return fmt.Sprintf("dst %q want %q", d.Dst, wantDst)
	}
	if t.Weight != "" {
		if !t.WeightOK || d.Weight != t.WeightVal {
			return fmt.Sprintf("weight %v want %q", d.Weight, t.Weight)
		}
	} else if d.Weight != 0 {
		return fmt.Sprintf("weight %v want none", d.Weight)
	}
	var wantTags []string
	for _, o := range cs.Tags { // the other tags in registration order
		if o = strings.TrimSpace(o); !strings.HasPrefix(o, "urlprefix-") {
			wantTags = append(wantTags, o)
		}
	}
	got := d.Tags
	// tag by tag: a registered tag "a,b" is not the two tags "a" and "b" (a manual 'route del tags "a"' would hit it)
	same := len(got) == len(wantTags)
	for i := 0; same && i < len(got); i++ {
		same = got[i] == wantTags[i]
	}
	if !same && !(len(got) == 0 && strings.Join(wantTags, ",") == "") {
		return fmt.Sprintf("tags %q want %q", got, wantTags)
	}
	if !eqOpts(d.Opts, wantOpts) {
		return fmt.Sprintf("opts %v want %v", d.Opts, wantOpts)
	}
	return ""
}

// c14Catalog: the lines of a whole generated catalog, concatenated like ServiceMonitor.makeConfig does,
// must still build a table containing the routes of all well-formed services.
func c14Catalog(c *ctx, r *rand.Rand, env map[string]string) {
	c.R.Eval(1)
	var all []string
	type good struct{ svc, host, path string }
	var goods []good
	var descr []string
	k := 2 + r.Intn(5)
	for i := 0; i < k; i++ {
		if r.Intn(2) == 0 {
			// a well-formed service
			name := fmt.Sprintf("good%d", i)
			host := fmt.Sprintf("g%d.test", i)
			svc := &api.CatalogService{ServiceName: name, ServiceAddress: "10.2.0." + strconv.Itoa(i+1), ServicePort: 8000 + i, ServiceTags: []string{"urlprefix-" + host + "/app strip=/app", "v1"}, Node: "n", ServiceID: name}
			all = append(all, consul.VerifBuildRouteCmds(svc, "urlprefix-", env)...)
			goods = append(goods, good{name, host, "/app"})
			descr = append(descr, name)
		} else {
			cs := genC14(r)
			svc := &api.CatalogService{ServiceName: cs.Name, ServiceAddress: cs.Addr, Address: cs.NodeAddr, ServicePort: cs.Port, ServiceTags: cs.Tags, Node: "n", ServiceID: "x"}
			all = append(all, consul.VerifBuildRouteCmds(svc, "urlprefix-", env)...)
			descr = append(descr, fmt.Sprintf("%q %q", cs.Name, cs.Tags))
		}
	}
	text := strings.Join(all, "\n")
	in := map[string]any{"Catalog": descr, "Text": text}
	var t route.Table
	var err error
	if p := safely(func() { t, err = newTable(text) }); p != "" {
		c.R.Violate("c14:catalog-panic", p, in)
		return
	}
	if err != nil {
		c.R.Violate("c14:one-registration-blocks-all", fmt.Sprintf("the config generated for a catalog with %d well-formed services is rejected as a whole: %v", len(goods), err), in)
		return
	}
	for _, g := range goods {
		found := false
		for _, rt := range t[g.host] {
			if rt.Path == g.path {
				for _, x := range rt.Targets {
					found = found || x.Service == g.svc
				}
			}
		}
		if !found {
			c.R.Violate("c14:wellformed-service-missing", fmt.Sprintf("route %s%s of %s missing from the table", g.host, g.path, g.svc), in)
			return
		}
	}
	c.R.Count("catalogs", 1)
}
