package main

import (
	"fmt"
	"os"
	"os/exec"
	"path/filepath"
	"runtime"
	"strconv"
	"sync"
	"time"

	"verif/harness/internal/rep"
)

// runBatches re-executes this binary once per batch (child process per batch:
// a fatal error or os.Exit inside fabio code must not end the other monitors).
// In a child (c.Batch >= 0) it simply runs f for that batch.
func runBatches(c *ctx, part string, n int, par int, timeout time.Duration, f func(c *ctx, batch int)) {
	if c.Batch >= 0 {
		f(c, c.Batch)
		return
	}
	if c.Replay != "" {
		f(c, 0)
		return
	}
	if par <= 0 {
		par = runtime.GOMAXPROCS(0)
	}
	sem := make(chan struct{}, par)
	var wg sync.WaitGroup
	var mu sync.Mutex
	for b := 0; b < n; b++ {
		wg.Add(1)
		sem <- struct{}{}
		go func(b int) {
			defer wg.Done()
			defer func() { <-sem }()
			out := filepath.Join(c.Dir, fmt.Sprintf("batch%d.json", b))
			errf := filepath.Join(c.Dir, fmt.Sprintf("batch%d.stderr", b))
			ef, _ := os.Create(errf)
			cmd := exec.Command(os.Args[0], part, "-batch", strconv.Itoa(b), "-seed", strconv.FormatInt(c.Seed, 10),
				"-tier", c.Tier, "-out", out, "-dir", c.Dir, "-scale", fmt.Sprint(c.Scale), "-fabio", c.Fabio)
			cmd.Stdout, cmd.Stderr = ef, ef
			cmd.Env = append(os.Environ(), "GOMAXPROCS=2")
			start := time.Now()
			cmd.Start()
			done := make(chan error, 1)
			go func() { done <- cmd.Wait() }()
			var err error
			timedOut := false
			select {
			case err = <-done:
			case <-time.After(timeout):
				cmd.Process.Signal(os.Interrupt)
				timedOut = true
				select {
				case err = <-done:
				case <-time.After(5 * time.Second):
					cmd.Process.Kill()
					err = <-done
				}
			}
			ef.Close()
			mu.Lock()
			defer mu.Unlock()
			c.R.Count("batches", 1)
			child, lerr := rep.Load(out)
			if lerr == nil {
				c.R.Merge(child)
				return
			}
			if timedOut {
				c.R.Inconcl("batch %d: watchdog fired after %s", b, time.Since(start).Round(time.Second))
				return
			}
			tail := tailFile(errf, 3000)
			last := tailFile(filepath.Join(c.Dir, fmt.Sprintf("last_input.%d", b)), 6000)
			c.R.Count("child_crashes", 1)
			c.R.Violate(part+":process-died:"+crashClass(tail), fmt.Sprintf("batch %d child exited (%v) without a report; stderr tail:\n%s", b, err, tail),
				map[string]any{"LastInput": last, "Batch": b})
		}(b)
	}
	wg.Wait()
}

func tailFile(path string, n int) string {
	b, err := os.ReadFile(path)
	if err != nil {
		return ""
	}
	if len(b) > n {
		b = b[len(b)-n:]
	}
	return string(b)
}

func crashClass(stderr string) string {
	for _, k := range []string{"fatal error: checkptr", "stack overflow", "out of memory", "concurrent map", "fatal error", "panic:"} {
		if containsStr(stderr, k) {
			return k
		}
	}
	return "exit"
}

func containsStr(s, sub string) bool {
	return len(sub) <= len(s) && (func() bool {
		for i := 0; i+len(sub) <= len(s); i++ {
			if s[i:i+len(sub)] == sub {
				return true
			}
		}
		return false
	})()
}

// lastInput keeps the input about to be handed to fabio code on disk so that a
// process-fatal error still leaves a witness.
type lastInput struct{ f *os.File }

func newLastInput(c *ctx, batch int) *lastInput {
	f, err := os.Create(filepath.Join(c.Dir, fmt.Sprintf("last_input.%d", batch)))
	if err != nil {
		return &lastInput{}
	}
	return &lastInput{f}
}

func (l *lastInput) Set(b []byte) {
	if l.f == nil {
		return
	}
	l.f.Truncate(0)
	l.f.WriteAt(b, 0)
}

// runRestartable is runBatches for code under test that may legitimately end the
// process (flag.ExitOnError): the child records the index of the case it is about
// to run; when it dies the parent inspects stderr (a Go panic or fatal error is a
// violation, a plain exit is not) and restarts the child after that case.
// f must generate its cases deterministically from (seed, batch) and skip those < start.
func runRestartable(c *ctx, part string, n int, par int, timeout time.Duration,
	f func(c *ctx, batch, start int, progress func(i int, input string))) {
	if c.Batch >= 0 {
		start, _ := strconv.Atoi(os.Getenv("VH_START"))
		pf, _ := os.OpenFile(filepath.Join(c.Dir, fmt.Sprintf("progress.%d", c.Batch)), os.O_CREATE|os.O_WRONLY|os.O_TRUNC, 0o644)
		out := os.Getenv("VH_OUT")
		n := 0
		f(c, c.Batch, start, func(i int, input string) {
			if pf != nil {
				b := []byte(fmt.Sprintf("%d\n%s", i, input))
				pf.Truncate(0)
				pf.WriteAt(b, 0)
			}
			if n++; n%20 == 0 && out != "" {
				c.R.WriteSnapshot(out)
			}
		})
		return
	}
	if par <= 0 {
		par = runtime.GOMAXPROCS(0)
	}
	sem := make(chan struct{}, par)
	var wg sync.WaitGroup
	var mu sync.Mutex
	for b := 0; b < n; b++ {
		wg.Add(1)
		sem <- struct{}{}
		go func(b int) {
			defer wg.Done()
			defer func() { <-sem }()
			start := 0
			for attempt := 0; attempt < 5000; attempt++ {
				out := filepath.Join(c.Dir, fmt.Sprintf("rbatch%d.%d.json", b, attempt))
				errf := filepath.Join(c.Dir, fmt.Sprintf("rbatch%d.stderr", b))
				ef, _ := os.Create(errf)
				cmd := exec.Command(os.Args[0], part, "-batch", strconv.Itoa(b), "-seed", strconv.FormatInt(c.Seed, 10),
					"-tier", c.Tier, "-out", out, "-dir", c.Dir, "-scale", fmt.Sprint(c.Scale))
				cmd.Stdout, cmd.Stderr = ef, ef
				cmd.Env = append(os.Environ(), "GOMAXPROCS=2", "VH_START="+strconv.Itoa(start), "VH_OUT="+out, "VH_COMPLETE="+out+".done")
				done := make(chan error, 1)
				cmd.Start()
				go func() { done <- cmd.Wait() }()
				var err error
				select {
				case err = <-done:
				case <-time.After(timeout):
					cmd.Process.Kill()
					err = <-done
					mu.Lock()
					c.R.Inconcl("batch %d: watchdog fired", b)
					mu.Unlock()
					ef.Close()
					return
				}
				ef.Close()
				child, lerr := rep.Load(out)
				mu.Lock()
				if lerr == nil {
					c.R.Merge(child)
				}
				_, complete := os.Stat(out + ".done")
				if complete == nil {
					c.R.Count("batches", 1)
					mu.Unlock()
					return
				}
				// the child ended early: which case was it running?
				prog := tailFile(filepath.Join(c.Dir, fmt.Sprintf("progress.%d", b)), 1<<20)
				idx, input := -1, ""
				if i := indexByte(prog, '\n'); i > 0 {
					idx, _ = strconv.Atoi(prog[:i])
					input = prog[i+1:]
				}
				tail := tailFile(errf, 4000)
				c.R.Count("child_exits", 1)
				if containsStr(tail, "panic:") || containsStr(tail, "fatal error:") || containsStr(tail, "goroutine ") {
					c.R.Violate(part+":process-panic:"+crashClass(tail)+":"+panicLine(tail), fmt.Sprintf("case %d of batch %d ended the process with a Go panic (%v):\n%s", idx, b, err, tail), map[string]any{"Input": input, "Batch": b, "Index": idx})
				} else {
					c.R.Count("plain_process_exits", 1)
				}
				mu.Unlock()
				if idx < start {
					mu.Lock()
					c.R.Inconcl("batch %d: child died before making progress (start %d): %s", b, start, tail)
					mu.Unlock()
					return
				}
				start = idx + 1
			}
		}(b)
	}
	wg.Wait()
}

func indexByte(s string, b byte) int {
	for i := 0; i < len(s); i++ {
		if s[i] == b {
			return i
		}
	}
	return -1
}

// panicLine extracts the 'panic: ...' line (without addresses) for a stable signature.
func panicLine(stderr string) string {
	i := 0
	for {
		j := indexFrom(stderr, "panic: ", i)
		if j < 0 {
			return ""
		}
		e := j
		for e < len(stderr) && stderr[e] != '\n' {
			e++
		}
		l := stderr[j+7 : e]
		if len(l) > 60 {
			l = l[:60]
		}
		return l
	}
}

func indexFrom(s, sub string, from int) int {
	for i := from; i+len(sub) <= len(s); i++ {
		if s[i:i+len(sub)] == sub {
			return i
		}
	}
	return -1
}
