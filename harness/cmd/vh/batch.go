package main

import (
	"fmt"
	"os"
	"os/exec"
	"path/filepath"
	"runtime"
	"strconv"
	"sync"
	"time"

	"verif/harness/internal/rep"
)

// runBatches re-executes this binary once per batch (child process per batch:
// a fatal error or os.Exit inside fabio code must not end the other monitors).
// In a child (c.Batch >= 0) it simply runs f for that batch.
func runBatches(c *ctx, part string, n int, par int, timeout time.Duration, f func(c *ctx, batch int)) {
	if c.Batch >= 0 {
		f(c, c.Batch)
		return
	}
	if c.Replay != "" {
		f(c, 0)
		return
	}
	if par <= 0 {
		par = runtime.GOMAXPROCS(0)
	}
	sem := make(chan struct{}, par)
	var wg sync.WaitGroup
	var mu sync.Mutex
	for b := 0; b < n; b++ {
		wg.Add(1)
		sem <- struct{}{}
		go func(b int) {
			defer wg.Done()
			defer func() { <-sem }()
			out := filepath.Join(c.Dir, fmt.Sprintf("batch%d.json", b))
			errf := filepath.Join(c.Dir, fmt.Sprintf("batch%d.stderr", b))
			ef, _ := os.Create(errf)
			cmd := exec.Command(os.Args[0], part, "-batch", strconv.Itoa(b), "-seed", strconv.FormatInt(c.Seed, 10),
				"-tier", c.Tier, "-out", out, "-dir", c.Dir, "-scale", fmt.Sprint(c.Scale), "-fabio", c.Fabio)
			cmd.Stdout, cmd.Stderr = ef, ef
			cmd.Env = append(os.Environ(), "GOMAXPROCS=2")
			start := time.Now()
			cmd.Start()
			done := make(chan error, 1)
			go func() { done <- cmd.Wait() }()
			var err error
			timedOut := false
			select {
			case err = <-done:
			case <-time.After(timeout):
				cmd.Process.Signal(os.Interrupt)
				timedOut = true
				select {
				case err = <-done:
				case <-time.After(5 * time.Second):
					cmd.Process.Kill()
					err = <-done
				}
			}
			ef.Close()
			mu.Lock()
			defer mu.Unlock()
			c.R.Count("batches", 1)
			child, lerr := rep.Load(out)
			if lerr == nil {
				c.R.Merge(child)
				return
			}
			if timedOut {
				c.R.Inconcl("batch %d: watchdog fired after %s", b, time.Since(start).Round(time.Second))
				return
			}
			tail := tailFile(errf, 3000)
			last := tailFile(filepath.Join(c.Dir, fmt.Sprintf("last_input.%d", b)), 6000)
			c.R.Count("child_crashes", 1)
			c.R.Violate(part+":process-died:"+crashClass(tail), fmt.Sprintf("batch %d child exited (%v) without a report; stderr tail:\n%s", b, err, tail),
				map[string]any{"LastInput": last, "Batch": b})
		}(b)
	}
	wg.Wait()
}

func tailFile(path string, n int) string {
	b, err := os.ReadFile(path)
	if err != nil {
		return ""
	}
	if len(b) > n {
		b = b[len(b)-n:]
	}
	return string(b)
}

func crashClass(stderr string) string {
	for _, k := range []string{"fatal error: checkptr", "stack overflow", "out of memory", "concurrent map", "fatal error", "panic:"} {
		if containsStr(stderr, k) {
			return k
		}
	}
	return "exit"
}

func containsStr(s, sub string) bool {
	return len(sub) <= len(s) && (func() bool {
		for i := 0; i+len(sub) <= len(s); i++ {
			if s[i:i+len(sub)] == sub {
				return true
			}
		}
		return false
	})()
}

// lastInput keeps the input about to be handed to fabio code on disk so that a
// process-fatal error still leaves a witness.
type lastInput struct{ f *os.File }

func newLastInput(c *ctx, batch int) *lastInput {
	f, err := os.Create(filepath.Join(c.Dir, fmt.Sprintf("last_input.%d", batch)))
	if err != nil {
		return &lastInput{}
	}
	return &lastInput{f}
}

func (l *lastInput) Set(b []byte) {
	if l.f == nil {
		return
	}
	l.f.Truncate(0)
	l.f.WriteAt(b, 0)
}
