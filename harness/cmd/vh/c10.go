package main

import (
	"bytes"
	"crypto/ecdsa"
	"crypto/elliptic"
	crand "crypto/rand"
	"crypto/tls"
	"crypto/x509"
	"crypto/x509/pkix"
	"encoding/binary"
	"encoding/hex"
	"errors"
	"fmt"
	"io"
	"math/big"
	"math/rand"
	"net"
	"strings"
	"sync"
	"time"

	"github.com/fabiolb/fabio/proxy/tcp"
	"github.com/fabiolb/fabio/route"
	"golang.org/x/crypto/cryptobyte"
)

func init() { register("c10-sni", "C10", c10SNI) }

func selfSigned(names ...string) tls.Certificate {
	key, _ := ecdsa.GenerateKey(elliptic.P256(), crand.Reader)
	serial, _ := crand.Int(crand.Reader, big.NewInt(1<<62))
	tmpl := &x509.Certificate{SerialNumber: serial, Subject: pkix.Name{CommonName: names[0]}, DNSNames: names,
		NotBefore: time.Now().Add(-time.Hour), NotAfter: time.Now().Add(24 * time.Hour),
		KeyUsage: x509.KeyUsageDigitalSignature, ExtKeyUsage: []x509.ExtKeyUsage{x509.ExtKeyUsageServerAuth}, BasicConstraintsValid: true, IsCA: true}
	der, _ := x509.CreateCertificate(crand.Reader, tmpl, tmpl, &key.PublicKey, key)
	leaf, _ := x509.ParseCertificate(der)
	return tls.Certificate{Certificate: [][]byte{der}, PrivateKey: key, Leaf: leaf}
}

// captureHello lets a crypto/tls client write its first flight and returns the first TLS record.
func captureHello(cfg *tls.Config) ([]byte, error) {
	cl, srv := net.Pipe()
	defer cl.Close()
	defer srv.Close()
	go func() {
		c := tls.Client(cl, cfg)
		c.SetDeadline(time.Now().Add(5 * time.Second))
		c.Handshake()
	}()
	srv.SetDeadline(time.Now().Add(5 * time.Second))
	hdr := make([]byte, 5)
	if _, err := io.ReadFull(srv, hdr); err != nil {
		return nil, err
	}
	n := int(binary.BigEndian.Uint16(hdr[3:5]))
	body := make([]byte, n)
	if _, err := io.ReadFull(srv, body); err != nil {
		return nil, err
	}
	return append(hdr, body...), nil
}

// stdServerName feeds bytes to a real crypto/tls server and reports the
// ServerName it saw, or accepted=false when the hello was rejected.
func stdServerName(rec []byte) (name string, accepted bool) {
	cl, srv := net.Pipe()
	defer cl.Close()
	done := make(chan struct{})
	go func() {
		defer close(done)
		s := tls.Server(srv, &tls.Config{GetConfigForClient: func(h *tls.ClientHelloInfo) (*tls.Config, error) {
			name, accepted = h.ServerName, true
			return nil, errors.New("seen")
		}})
		s.SetDeadline(time.Now().Add(3 * time.Second))
		s.Handshake()
		srv.Close()
	}()
	cl.SetDeadline(time.Now().Add(3 * time.Second))
	go io.Copy(io.Discard, cl)
	cl.Write(rec)
	<-done
	return
}

// cbServerName is an independent cryptobyte parser of the ClientHello (second opinion).
func cbServerName(rec []byte) (name string, ok bool) {
	s := cryptobyte.String(rec)
	var typ uint8
	var ver uint16
	var body cryptobyte.String
	if !s.ReadUint8(&typ) || typ != 22 || !s.ReadUint16(&ver) || !s.ReadUint16LengthPrefixed(&body) {
		return "", false
	}
	var ht uint8
	var hs cryptobyte.String
	if !body.ReadUint8(&ht) || ht != 1 || !body.ReadUint24LengthPrefixed(&hs) {
		return "", false
	}
	var sid, cs, cm cryptobyte.String
	if !hs.Skip(2+32) || !hs.ReadUint8LengthPrefixed(&sid) || !hs.ReadUint16LengthPrefixed(&cs) || !hs.ReadUint8LengthPrefixed(&cm) {
		return "", false
	}
	if hs.Empty() {
		return "", true
	}
	var exts cryptobyte.String
	if !hs.ReadUint16LengthPrefixed(&exts) || !hs.Empty() {
		return "", false
	}
	for !exts.Empty() {
		var et uint16
		var ed cryptobyte.String
		if !exts.ReadUint16(&et) || !exts.ReadUint16LengthPrefixed(&ed) {
			return "", false
		}
		if et != 0 {
			continue
		}
		var list cryptobyte.String
		if !ed.ReadUint16LengthPrefixed(&list) || !ed.Empty() {
			return "", false
		}
		for !list.Empty() {
			var nt uint8
			var nm cryptobyte.String
			if !list.ReadUint8(&nt) || !list.ReadUint16LengthPrefixed(&nm) {
				return "", false
			}
			if nt == 0 && name == "" {
				name = string(nm)
			}
		}
	}
	return name, true
}

// fabioSNI mirrors what SNIProxy.ServeTCP does with the two functions under test.
func fabioSNI(rec []byte) (name string, ok bool, size int, err error) {
	if len(rec) < 9 {
		return "", false, 0, errors.New("short")
	}
	size, err = tcp.VerifClientHelloBufferSize(rec[:9])
	if err != nil {
		return "", false, 0, err
	}
	if len(rec) < size {
		return "", false, size, errors.New("incomplete")
	}
	name, ok = tcp.VerifReadServerName(rec[5:size])
	return name, ok, size, nil
}

type c10Entry struct {
	Desc string
	Rec  []byte
}

func c10Corpus(c *ctx, r *rand.Rand) []c10Entry {
	var out []c10Entry
	names := []string{"", "example.com", "a.b.c.example.org", "EXAMPLE.Com", "xn--nxasmq6b.test", "10.1.2.3", "::1", strings.Repeat("a", 63) + "." + strings.Repeat("b", 63) + "." + strings.Repeat("c", 63) + "." + strings.Repeat("d", 58), "x", "sni-1.test", "trailing.dot."}
	versions := [][2]uint16{{tls.VersionTLS10, tls.VersionTLS10}, {tls.VersionTLS10, tls.VersionTLS12}, {tls.VersionTLS12, tls.VersionTLS12}, {tls.VersionTLS12, tls.VersionTLS13}, {tls.VersionTLS13, tls.VersionTLS13}, {0, 0}}
	curves := [][]tls.CurveID{nil, {tls.X25519}, {tls.CurveP256, tls.CurveP384, tls.CurveP521}, {tls.X25519MLKEM768, tls.X25519}}
	alpns := [][]string{nil, {"h2", "http/1.1"}, {"h2"}, {strings.Repeat("p", 200), "q"}}
	suites := [][]uint16{nil, {tls.TLS_ECDHE_RSA_WITH_AES_128_GCM_SHA256}, {tls.TLS_RSA_WITH_AES_128_CBC_SHA, tls.TLS_ECDHE_ECDSA_WITH_AES_256_GCM_SHA384, tls.TLS_ECDHE_RSA_WITH_CHACHA20_POLY1305}}
	n := c.pick(120, 600)
	for i := 0; i < n; i++ {
		v := choose(r, versions)
		cfg := &tls.Config{ServerName: choose(r, names), MinVersion: v[0], MaxVersion: v[1], CurvePreferences: choose(r, curves),
			NextProtos: choose(r, alpns), CipherSuites: choose(r, suites), InsecureSkipVerify: true}
		if i < len(names) {
			cfg.ServerName = names[i]
		}
		rec, err := captureHello(cfg)
		if err != nil {
			continue
		}
		out = append(out, c10Entry{fmt.Sprintf("crypto/tls client sni=%q vers=%x-%x curves=%v alpn=%d suites=%d", cfg.ServerName, v[0], v[1], cfg.CurvePreferences, len(cfg.NextProtos), len(cfg.CipherSuites)), rec})
	}
	// session resumption: tickets (TLS 1.2) and PSK (TLS 1.3)
	cert := selfSigned("resume.test")
	for _, ver := range []uint16{tls.VersionTLS12, tls.VersionTLS13} {
		cache := tls.NewLRUClientSessionCache(4)
		ccfg := &tls.Config{ServerName: "resume.test", InsecureSkipVerify: true, ClientSessionCache: cache, MinVersion: ver, MaxVersion: ver}
		scfg := &tls.Config{Certificates: []tls.Certificate{cert}, MinVersion: ver, MaxVersion: ver}
		cl, sv := net.Pipe()
		var wg sync.WaitGroup
		wg.Add(1)
		go func() {
			defer wg.Done()
			s := tls.Server(sv, scfg)
			s.SetDeadline(time.Now().Add(5 * time.Second))
			if s.Handshake() == nil {
				s.Write([]byte("x"))
			}
			time.Sleep(50 * time.Millisecond)
			s.Close()
		}()
		cc := tls.Client(cl, ccfg)
		cc.SetDeadline(time.Now().Add(5 * time.Second))
		if cc.Handshake() == nil {
			b := make([]byte, 1)
			cc.Read(b) // receive the session ticket
		}
		cc.Close()
		wg.Wait()
		if rec, err := captureHello(ccfg); err == nil {
			out = append(out, c10Entry{fmt.Sprintf("crypto/tls resumption hello vers=%x len=%d", ver, len(rec)), rec})
		}
	}
	// synthetic hellos assembled by the harness
	out = append(out, c10Synthetic(r)...)
	return out
}

func c10Build(sessionID []byte, suites int, exts [][2]any) []byte {
	var b cryptobyte.Builder
	b.AddUint8(22)
	b.AddUint16(0x0301)
	b.AddUint16LengthPrefixed(func(b *cryptobyte.Builder) {
		b.AddUint8(1)
		b.AddUint24LengthPrefixed(func(b *cryptobyte.Builder) {
			b.AddUint16(0x0303)
			b.AddBytes(bytes.Repeat([]byte{0xab}, 32))
			b.AddUint8LengthPrefixed(func(b *cryptobyte.Builder) { b.AddBytes(sessionID) })
			b.AddUint16LengthPrefixed(func(b *cryptobyte.Builder) {
				for i := 0; i < suites; i++ {
					b.AddUint16(uint16(0xc02b + i))
				}
			})
			b.AddUint8LengthPrefixed(func(b *cryptobyte.Builder) { b.AddUint8(0) })
			if exts == nil {
				return
			}
			b.AddUint16LengthPrefixed(func(b *cryptobyte.Builder) {
				for _, e := range exts {
					b.AddUint16(e[0].(uint16))
					b.AddUint16LengthPrefixed(func(b *cryptobyte.Builder) { b.AddBytes(e[1].([]byte)) })
				}
			})
		})
	})
	out, err := b.Bytes()
	if err != nil {
		return nil
	}
	return out
}

func sniExt(names ...string) [2]any {
	var b cryptobyte.Builder
	b.AddUint16LengthPrefixed(func(b *cryptobyte.Builder) {
		for i, n := range names {
			t := uint8(0)
			if i > 0 {
				t = uint8(i) // other name types
			}
			b.AddUint8(t)
			b.AddUint16LengthPrefixed(func(b *cryptobyte.Builder) { b.AddBytes([]byte(n)) })
		}
	})
	out, _ := b.Bytes()
	return [2]any{uint16(0), out}
}

// sniTyped builds a server_name extension from (name_type, name) pairs.
func sniTyped(entries ...any) [2]any {
	var b cryptobyte.Builder
	b.AddUint16LengthPrefixed(func(b *cryptobyte.Builder) {
		for i := 0; i+1 < len(entries); i += 2 {
			b.AddUint8(uint8(entries[i].(int)))
			n := entries[i+1].(string)
			b.AddUint16LengthPrefixed(func(b *cryptobyte.Builder) { b.AddBytes([]byte(n)) })
		}
	})
	out, _ := b.Bytes()
	return [2]any{uint16(0), out}
}

func c10Synthetic(r *rand.Rand) []c10Entry {
	sigalgs := [2]any{uint16(13), []byte{0, 4, 4, 3, 8, 4}}
	groups := [2]any{uint16(10), []byte{0, 4, 0, 29, 0, 23}}
	points := [2]any{uint16(11), []byte{1, 0}}
	unknown := [2]any{uint16(0xfafa), []byte{1, 2, 3}}
	empty := [2]any{uint16(23), []byte{}}
	pad := func(n int) [2]any { return [2]any{uint16(21), make([]byte, n)} }
	var out []c10Entry
	add := func(d string, rec []byte) {
		if rec != nil {
			out = append(out, c10Entry{"synthetic: " + d, rec})
		}
	}
	add("no extensions at all", c10Build(nil, 2, nil))
	add("empty extension block", c10Build(nil, 2, [][2]any{}))
	add("SNI first", c10Build(nil, 3, [][2]any{sniExt("first.test"), groups, points, sigalgs}))
	add("SNI last", c10Build(bytes.Repeat([]byte{1}, 32), 3, [][2]any{groups, points, sigalgs, unknown, empty, sniExt("last.test")}))
	add("SNI between unknown extensions", c10Build(nil, 1, [][2]any{unknown, sniExt("mid.test"), {uint16(0x1234), make([]byte, 300)}, groups, sigalgs}))
	add("no SNI, other extensions", c10Build(nil, 5, [][2]any{groups, points, sigalgs}))
	add("padding to ~16KiB", c10Build(nil, 2, [][2]any{groups, sigalgs, sniExt("padded.test"), pad(16000)}))
	add("padding before SNI", c10Build(nil, 2, [][2]any{pad(4000), groups, sigalgs, sniExt("afterpad.test")}))
	add("two name entries (host_name then other type)", c10Build(nil, 2, [][2]any{groups, sigalgs, sniExt("two.test", "other")}))
	add("other name type before host_name", c10Build(nil, 2, [][2]any{groups, sigalgs, sniTyped(1, "xyz", 0, "after.test")}))
	add("other name types around host_name", c10Build(nil, 2, [][2]any{groups, sniTyped(7, "x", 0, "between.test", 200, strings.Repeat("y", 300)), sigalgs}))
	add("only another name type", c10Build(nil, 2, [][2]any{groups, sigalgs, sniTyped(3, "not-a-host-name")}))
	add("two other name types, no host_name", c10Build(nil, 2, [][2]any{sniTyped(1, "a", 2, "b"), groups, sigalgs}))
	add("other name type with empty name before host_name", c10Build(nil, 2, [][2]any{groups, sigalgs, sniTyped(1, "", 0, "afterempty.test")}))
	add("only an empty entry of another type", c10Build(nil, 2, [][2]any{groups, sigalgs, sniTyped(9, "")}))
	add("two host_name entries", c10Build(nil, 2, [][2]any{groups, sigalgs, sniTyped(0, "one.test", 0, "two.test")}))
	add("empty server name list", c10Build(nil, 2, [][2]any{groups, sigalgs, sniTyped()}))
	add("host_name with trailing dot", c10Build(nil, 2, [][2]any{groups, sigalgs, sniTyped(0, "dot.test.")}))
	add("many cipher suites", c10Build(nil, 200, [][2]any{groups, sigalgs, sniExt("suites.test")}))
	add("253 char name", c10Build(nil, 2, [][2]any{groups, sigalgs, sniExt(strings.Repeat("a.", 126) + "b")}))
	add("upper case name", c10Build(nil, 2, [][2]any{groups, sigalgs, sniExt("UPPER.Test")}))
	add("empty host name entry", c10Build(nil, 2, [][2]any{groups, sigalgs, sniExt("")}))
	for i := 0; i < 40; i++ {
		var exts [][2]any
		pool := [][2]any{groups, points, sigalgs, unknown, empty, pad(r.Intn(600)), {uint16(16), []byte{0, 3, 2, 'h', '2'}}, {uint16(43), []byte{2, 3, 4}}, {uint16(51), append([]byte{0, 36, 0, 29, 0, 32}, make([]byte, 32)...)}}
		for _, k := range r.Perm(len(pool))[:r.Intn(len(pool))] {
			exts = append(exts, pool[k])
		}
		name := fmt.Sprintf("syn%d.test", i)
		if r.Intn(4) > 0 {
			pos := r.Intn(len(exts) + 1)
			exts = append(exts[:pos:pos], append([][2]any{sniExt(name)}, exts[pos:]...)...)
		}
		add(fmt.Sprintf("random extension order #%d", i), c10Build(make([]byte, r.Intn(33)), 1+r.Intn(30), exts))
	}
	return out
}

func c10SNI(c *ctx) {
	r := c.rng(1)
	c.R.Rule = "corpus of genuine ClientHellos emitted at run time by crypto/tls clients (server names, TLS 1.0-1.3, curves incl. X25519MLKEM768, ALPN, cipher lists, ticket/PSK resumption) plus synthetic hellos; oracle A: name == the name a real crypto/tls server reports for the same bytes (cryptobyte parser as second opinion); oracle B: buffered size <= 5+record length and == record size for accepted hellos; oracle C: every truncation of every corpus element and random corruptions never panic. also replayed through SNIProxy.ServeTCP with a recording Lookup. evaluations = parser invocations; non-trivial = distinct accepted corpus hellos + distinct corrupted inputs that still parse; distinct by bytes"
	corpus := c10Corpus(c, r)
	if len(corpus) < 50 {
		c.R.Inconcl("corpus too small: %d", len(corpus))
		return
	}
	// a parse of at most one TLS record costs microseconds: one that has not returned after 20s never will
	hg := newHangGuard(c, "c10:parse-does-not-terminate", 20*time.Second)
	var accepted, withName, big int
	for _, e := range corpus {
		c.R.Eval(1)
		in := map[string]any{"Desc": e.Desc, "Hex": hex.EncodeToString(e.Rec)}
		stdName, stdOK := stdServerName(e.Rec)
		cbName, cbOK := cbServerName(e.Rec)
		var name string
		var ok bool
		var size int
		var err error
		leave := hg.enter(e.Rec)
		p := safely(func() { name, ok, size, err = fabioSNI(e.Rec) })
		leave()
		if p != "" {
			c.R.Violate("c10:panic", p, in)
			continue
		}
		recLen := int(binary.BigEndian.Uint16(e.Rec[3:5]))
		if err == nil && size > 5+recLen {
			c.R.Violate("c10:buffers-beyond-record", fmt.Sprintf("%s: buffer size %d > 5+%d", e.Desc, size, recLen), in)
		}
		if stdOK {
			accepted++
			c.R.Nontrivial(string(e.Rec))
			if len(e.Rec) > 1400 {
				big++
			}
			if stdName != "" {
				withName++
			}
			if cbOK && cbName != stdName {
				c.R.Note("second opinion disagrees with crypto/tls on %s: %q vs %q", e.Desc, cbName, stdName)
			}
			if err != nil || !ok {
				c.R.Violate("c10:rejects-wellformed", fmt.Sprintf("%s: crypto/tls accepts (name %q) but fabio rejects (err=%v ok=%v)", e.Desc, stdName, err, ok), in)
				continue
			}
			if name != stdName {
				c.R.Violate("c10:name-differs", fmt.Sprintf("%s: fabio %q, crypto/tls %q", e.Desc, name, stdName), in)
				continue
			}
			if size != len(e.Rec) {
				c.R.Violate("c10:size-differs", fmt.Sprintf("%s: buffered %d bytes, hello record has %d", e.Desc, size, len(e.Rec)), in)
				continue
			}
			// end to end through the exported proxy
			leave = hg.enter(e.Rec)
			got, called := c10ViaProxy(e.Rec)
			leave()
			if called != (stdName != "") || got != stdName {
				c.R.Violate("c10:sniproxy-lookup", fmt.Sprintf("%s: SNIProxy looked up %q (called=%v), want %q", e.Desc, got, called, stdName), in)
			}
			if c.R.WantSample() {
				c.R.Sample(map[string]any{"hello": e.Desc, "bytes": len(e.Rec), "server_name": stdName})
			}
		} else {
			c.R.Count("corpus_rejected_by_std", 1)
		}
	}
	c.R.SetCounter("corpus", int64(len(corpus)))
	c.R.SetCounter("corpus_accepted_by_std", int64(accepted))
	c.R.SetCounter("corpus_with_name", int64(withName))
	c.R.SetCounter("corpus_larger_than_1400B", int64(big))
	if accepted < 40 || withName < 20 {
		c.R.Inconcl("too few accepted hellos: %d accepted, %d with a name", accepted, withName)
	}
	// oracle C: truncations
	var li *lastInput
	li = newLastInput(c, 0)
	try := func(data []byte, what string) {
		c.R.Eval(1)
		li.Set(data)
		var ok bool
		defer hg.enter(data)()
		if p := safely(func() {
			_, ok, _, _ = fabioSNI(data)
			if len(data) > 5 {
				tcp.VerifReadServerName(data[5:]) // the handshake parser on its own
			}
			tcp.VerifReadServerName(data)
		}); p != "" {
			c.R.Violate("c10:panic:"+what, p, map[string]any{"Hex": hex.EncodeToString(data)})
		}
		if ok && what == "corrupt" {
			c.R.Nontrivial(string(data))
		}
	}
	for _, e := range corpus {
		step := 1
		if len(e.Rec) > 3000 && !c.thorough() {
			step = 7
		}
		for n := 0; n <= len(e.Rec); n += step {
			try(e.Rec[:n], "truncate")
		}
	}
	ncorrupt := c.scale(c.pick(400000, 20000000))
	parallel(c, ncorrupt, func(r *rand.Rand, i int) {
		e := corpus[r.Intn(len(corpus))]
		if len(e.Rec) > 4000 && r.Intn(4) > 0 {
			e = corpus[r.Intn(len(corpus))]
		}
		d := append([]byte(nil), e.Rec...)
		for m := 1 + r.Intn(3); m > 0; m-- {
			switch r.Intn(6) {
			case 0:
				d[r.Intn(len(d))] ^= 1 << uint(r.Intn(8))
			case 1: // length field edits near the start
				i := r.Intn(min(len(d), 120))
				d[i] = byte(r.Intn(256))
			case 2:
				i := r.Intn(len(d))
				d[i] = choose(r, []byte{0, 0xff, 0x7f, 0x80, 1})
			case 3: // splice
				o := corpus[r.Intn(len(corpus))].Rec
				i, j := r.Intn(len(d)), r.Intn(len(o))
				d = append(d[:i:i], o[j:]...)
			case 4:
				d = d[:r.Intn(len(d))+1]
			case 5:
				i := r.Intn(len(d))
				d = append(d[:i:i], append([]byte{byte(r.Intn(256)), byte(r.Intn(256))}, d[i:]...)...)
			}
			if len(d) == 0 {
				d = []byte{0x16}
			}
		}
		c.R.Eval(1)
		var name string
		var ok bool
		var size int
		var err error
		leave := hg.enter(d)
		p := safely(func() {
			name, ok, size, err = fabioSNI(d)
			if len(d) > 5 {
				tcp.VerifReadServerName(d[5:])
			}
		})
		leave()
		if p != "" {
			c.R.Violate("c10:panic:corrupt", p, map[string]any{"Hex": hex.EncodeToString(d)})
			return
		}
		if err == nil && len(d) >= 5 {
			if recLen := int(binary.BigEndian.Uint16(d[3:5])); size > 5+recLen {
				c.R.Violate("c10:buffers-beyond-record", fmt.Sprintf("corrupted hello: buffer size %d > 5+%d", size, recLen), map[string]any{"Hex": hex.EncodeToString(d)})
			}
		}
		if ok {
			c.R.Count("corrupt_still_parsed", 1)
			if i%64 == 0 {
				c.R.Nontrivial(string(d))
				// agreement also on corrupted-but-wellformed hellos (sampled: the std server costs a handshake)
				if sn, acc := stdServerName(d[:size]); acc && sn != name {
					c.R.Violate("c10:name-differs", fmt.Sprintf("corrupted hello: fabio %q, crypto/tls %q", name, sn), map[string]any{"Hex": hex.EncodeToString(d[:size])})
				} else if acc {
					c.R.Count("corrupt_agreement_checked", 1)
				}
			}
		}
	})
}

type pipeAddr struct{}

func (pipeAddr) Network() string { return "pipe" }
func (pipeAddr) String() string  { return "pipe" }

// c10ViaProxy replays a hello through SNIProxy.ServeTCP and reports what Lookup was asked.
func c10ViaProxy(rec []byte) (host string, called bool) {
	cl, sv := net.Pipe()
	p := &tcp.SNIProxy{Lookup: func(h string) *route.Target { host, called = h, true; return nil }}
	done := make(chan struct{})
	go func() { defer close(done); p.ServeTCP(sv) }()
	cl.SetDeadline(time.Now().Add(3 * time.Second))
	cl.Write(rec)
	<-done
	cl.Close()
	return
}
