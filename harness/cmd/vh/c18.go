package main

import (
	"bufio"
	"context"
	"crypto/tls"
	"fmt"
	"io"
	"math/rand"
	"net"
	"os"
	"path/filepath"
	"strings"
	"sync"
	"sync/atomic"
	"syscall"
	"time"

	"google.golang.org/grpc"
	"google.golang.org/grpc/codes"
	"google.golang.org/grpc/credentials/insecure"
	"google.golang.org/grpc/metadata"
	"google.golang.org/grpc/status"
	"google.golang.org/protobuf/proto"
	"google.golang.org/protobuf/types/known/wrapperspb"

	"verif/harness/internal/fabioproc"
	"verif/harness/internal/fakeconsul"
	"verif/harness/internal/rawhttp"
)

func init() { register("c18-shutdown", "C18", c18Shutdown) }

type c18Run struct {
	W, G   time.Duration
	NoGRPC bool
	NoTCP  bool
	SigAt  time.Duration // extra delay before the signal
	Index  int
	OnlyWS bool // the only work in flight is one websocket tunnel
}

func c18Shutdown(c *ctx) {
	c.R.Rule = "the real binary with http, https, tcp, tcp+sni and grpc listeners, -proxy.shutdownwait W and -proxy.deregistergraceperiod G; in flight when SIGTERM arrives: HTTP requests answered 0.2W/0.5W/2W/never after the signal, a chunked download in progress, a websocket tunnel whose Upgrade token is spelled differently from run to run (websocket/WebSocket/Websocket/WEBSOCKET/webSocket), tcp and sni tunnels (idle, exchanging, finishing at 0.3W), gRPC unary calls finishing at 0.3W and a bidi stream that never ends. Monitors: work due within 0.5W completes normally; the process exits with code 0 no later than G+W+max(3s,W); connection attempts after G+0.5s are refused or never served. evaluations = in-flight items + connection probes; non-trivial = run in which open-ended work (never-answered request, endless stream or idle tunnel) was present at the signal; distinct by (W, G, listener mix, signal moment)"
	runs := []c18Run{{W: 1500 * time.Millisecond, G: 0}, {W: 1500 * time.Millisecond, G: 500 * time.Millisecond, SigAt: 200 * time.Millisecond},
		{W: 2 * time.Second, G: 0, NoGRPC: true, SigAt: 50 * time.Millisecond}, {W: time.Second, G: 0, NoTCP: true},
		{W: 4 * time.Second, G: 0, NoTCP: true, NoGRPC: true, OnlyWS: true}}
	if c.thorough() {
		r := c.rng(18)
		for i := 0; i < 36; i++ {
			runs = append(runs, c18Run{W: choose(r, []time.Duration{0, 500 * time.Millisecond, 1500 * time.Millisecond, 4 * time.Second}), G: choose(r, []time.Duration{0, 500 * time.Millisecond}),
				NoGRPC: r.Intn(4) == 0, NoTCP: r.Intn(4) == 0, SigAt: time.Duration(r.Intn(400)) * time.Millisecond})
		}
	}
	if c.Scale < 1 {
		runs = runs[:2]
	}
	sem := make(chan struct{}, 4)
	var wg sync.WaitGroup
	for i, rn := range runs {
		rn.Index = i
		wg.Add(1)
		sem <- struct{}{}
		go func(rn c18Run) {
			defer wg.Done()
			defer func() { <-sem }()
			c18One(c, rn)
		}(rn)
	}
	wg.Wait()
}

type c18Item struct {
	name   string
	due    float64 // finishes x*W after the signal; <0 = never
	result chan string
}

func c18One(c *ctx, rn c18Run) {
	desc := fmt.Sprintf("W=%s G=%s grpc=%v tcp=%v sig+%s", rn.W, rn.G, !rn.NoGRPC, !rn.NoTCP, rn.SigAt)
	desc += " upgrade-token=" + []string{"websocket", "WebSocket", "Websocket", "WEBSOCKET", "webSocket"}[rn.Index%5]
	if rn.OnlyWS {
		desc += " websocket-only"
	}
	in := map[string]any{"run": desc}
	up, err := rawhttp.NewUpstream("127.0.0.1:0")
	if err != nil {
		c.R.Inconcl("upstream: %v", err)
		return
	}
	defer up.Close()
	// echo upstream for tunnels
	eln, _ := net.Listen("tcp", "127.0.0.1:0")
	defer eln.Close()
	var echoConns atomic.Int64
	go func() {
		for {
			ec, err := eln.Accept()
			if err != nil {
				return
			}
			echoConns.Add(1)
			go func() {
				defer ec.Close()
				// echo; a client that asked to be held keeps the connection after its FIN (a silent upstream that never closes)
				hold := false
				buf := make([]byte, 32<<10)
				for {
					n, err := ec.Read(buf)
					if n > 0 {
						if strings.Contains(string(buf[:n]), "hold\n") {
							hold = true
						}
						ec.Write(buf[:n])
					}
					if err != nil {
						break
					}
				}
				if hold {
					time.Sleep(60 * time.Second)
				}
			}()
		}
	}()
	var scripts sync.Map
	gb, err := newC16Backend("g", &scripts)
	if err != nil {
		c.R.Inconcl("grpc backend: %v", err)
		return
	}
	defer gb.srv.Stop()
	certDir := filepath.Join(c.Dir, fmt.Sprintf("c18cert-%d", rn.Index))
	os.MkdirAll(certDir, 0o755)
	crt := c11Make("x-cert.pem", "fabio.test", "*.test")
	os.WriteFile(filepath.Join(certDir, "x-cert.pem"), crt.CertPEM, 0o644)
	os.WriteFile(filepath.Join(certDir, "x-key.pem"), crt.KeyPEM, 0o644)
	httpA, httpsA := fmt.Sprintf("127.0.0.1:%d", freePort()), fmt.Sprintf("127.0.0.1:%d", freePort())
	tcpA, sniA, grpcA := fmt.Sprintf("127.0.0.1:%d", freePort()), fmt.Sprintf("127.0.0.1:%d", freePort()), fmt.Sprintf("127.0.0.1:%d", freePort())
	addr := fmt.Sprintf("%s,%s;cs=cs1", httpA, httpsA)
	dynA := fmt.Sprintf("127.0.0.1:%d", freePort()) // served by the tcp-dynamic listener (refresh 200ms)
	mixPort := freePort()                           // an https+tcp+sni listener, its address written in the usual bare form ":port"
	if !rn.NoTCP {
		addr += fmt.Sprintf(",%s;proto=tcp,%s;proto=tcp+sni,127.0.0.1:%d;proto=tcp-dynamic;refresh=200ms,:%d;proto=https+tcp+sni;cs=cs1", tcpA, sniA, freePort(), mixPort)
	}
	if !rn.NoGRPC {
		addr += fmt.Sprintf(",%s;proto=grpc", grpcA)
	}
	rg, err := newRig(c, fmt.Sprintf("c18-%d", rn.Index), []string{"-proxy.addr", addr, "-proxy.cs", "cs=cs1;type=path;cert=" + certDir,
		"-proxy.shutdownwait", rn.W.String(), "-proxy.deregistergraceperiod", rn.G.String(), "-log.level", "INFO"})
	if err != nil {
		c.R.Inconcl("cannot start fabio (%s): %v", desc, err)
		return
	}
	defer rg.close()
	_, tcpPort, _ := net.SplitHostPort(tcpA)
	lines := []string{
		fmt.Sprintf("route add web web.test/ http://%s/", up.Addr()),
		fmt.Sprintf("route add tcpsvc :%s tcp://%s opts \"proto=tcp\"", tcpPort, eln.Addr()),
		fmt.Sprintf("route add snisvc sni.test/ tcp://%s opts \"proto=tcp\"", eln.Addr()),
		fmt.Sprintf("route add dynsvc %s tcp://%s", dynA, eln.Addr()),
	}
	if !rn.NoTCP {
		// a tcp route that names the static listener's port, there for a few refresh intervals and then withdrawn (below)
		lines = append(lines, fmt.Sprintf("route add passing :%d tcp://%s opts \"proto=tcp\"", mixPort, eln.Addr()))
	}
	rg.setManual(strings.Join(lines, "\n"))
	rg.agent.Update(func(nodes map[string]*fakeconsul.Node, insts map[string]*fakeconsul.Instance) {
		nodes["n0"] = &fakeconsul.Node{Name: "n0", Address: "127.0.0.1", Serf: "passing"}
		insts["n0/g"] = &fakeconsul.Instance{Node: "n0", ID: "g", Name: "g", Address: "127.0.0.1", Port: gb.port(), Tags: []string{"urlprefix-/pkg.G proto=grpc"}, Checks: []fakeconsul.Check{{CheckID: "c", Status: "passing"}}}
	})
	if err := rg.barrier(); err != nil {
		c.R.Inconcl("barrier: %v", err)
		return
	}
	listeners := []string{httpA, httpsA}
	if !rn.NoTCP {
		listeners = append(listeners, tcpA, sniA, dynA)
	}
	if !rn.NoGRPC {
		listeners = append(listeners, grpcA)
	}
	for _, a := range listeners {
		if !fabioproc.WaitListening(a, 20*time.Second) {
			c.R.Inconcl("%s: listener %s did not come up", desc, a)
			return
		}
	}
	if err := waitTLSServing("web.test", httpsA); err != nil {
		c.R.Inconcl("%s: %v", desc, err)
		return
	}
	if !rn.NoTCP {
		// the route history before shutdown: the tcp route on the static listener's port goes away; the tcp-dynamic refresh
		// loop (200ms) sees a port that has lost its route
		time.Sleep(500 * time.Millisecond)
		rg.setManual(strings.Join(lines[:len(lines)-1], "\n"))
		if err := rg.barrier(); err != nil {
			c.R.Inconcl("barrier: %v", err)
			return
		}
		time.Sleep(700 * time.Millisecond)
		if !fabioproc.WaitListening(fmt.Sprintf("127.0.0.1:%d", mixPort), 2*time.Second) {
			c.R.Violate("c18:static-listener-closed-by-a-route-change", fmt.Sprintf("%s: the https+tcp+sni listener :%d no longer accepts connections after a tcp route naming its port was withdrawn (long before shutdown)", desc, mixPort), nil)
		}
	}
	if !rn.NoGRPC {
		// a client that has connected to the gRPC listener and says nothing (no HTTP/2 preface): open-ended work too
		if sc, err := net.DialTimeout("tcp", grpcA, 5*time.Second); err == nil {
			defer sc.Close()
		}
	}
	var items []*c18Item
	// all gates exist before any item goroutine starts (the map is read-only afterwards)
	gates := map[float64]chan struct{}{}
	for _, x := range []float64{0.2, 0.3, 0.4, 0.5, 2, -1} {
		gates[x] = make(chan struct{})
	}
	gate := func(x float64) chan struct{} { return gates[x] }
	var started sync.WaitGroup
	add := func(name string, due float64, f func(ready func()) string) {
		it := &c18Item{name: name, due: due, result: make(chan string, 1)}
		items = append(items, it)
		started.Add(1)
		var once sync.Once
		go func() { it.result <- f(func() { once.Do(started.Done) }) }()
	}
	// ---- a websocket tunnel whose last exchange happens 0.5W after the signal ----
	add(fmt.Sprintf("websocket tunnel (Upgrade: %s) exchanging until 0.5W after the signal", []string{"websocket", "WebSocket", "Websocket", "WEBSOCKET", "webSocket"}[rn.Index%5]), 0.5, func(ready func()) string {
		id := fmt.Sprintf("ws%d", rn.Index)
		up.SetScript(id, &rawhttp.Script{Upgrade: true})
		conn, err := net.DialTimeout("tcp", httpA, 5*time.Second)
		if err != nil {
			ready()
			return "failed: " + err.Error()
		}
		defer conn.Close()
		conn.SetDeadline(time.Now().Add(40 * time.Second))
		// the upgrade token is case-insensitive (RFC 6455 4.2.1) and the proxy tunnels every spelling: the spelling follows the run
		tok := []string{"websocket", "WebSocket", "Websocket", "WEBSOCKET", "webSocket"}[rn.Index%5]
		fmt.Fprintf(conn, "GET /ws HTTP/1.1\r\nHost: web.test\r\nX-Verif-Id: %s\r\nUpgrade: %s\r\nConnection: Upgrade\r\nSec-WebSocket-Key: dGhlIHNhbXBsZSBub25jZQ==\r\nSec-WebSocket-Version: 13\r\n\r\n", id, tok)
		br := bufio.NewReader(conn)
		status, err := br.ReadString('\n')
		if err != nil || !strings.HasPrefix(status, "HTTP/1.1 101") {
			ready()
			return fmt.Sprintf("failed: upgrade answer %q err %v", status, err)
		}
		for {
			l, err := br.ReadString('\n')
			if err != nil {
				ready()
				return "failed: reading the 101 headers: " + err.Error()
			}
			if l == "\r\n" {
				break
			}
		}
		exchange := func(msg string) error {
			if _, err := conn.Write([]byte(msg)); err != nil {
				return err
			}
			got := make([]byte, len(msg))
			if _, err := io.ReadFull(br, got); err != nil {
				return err
			}
			if string(got) != msg {
				return fmt.Errorf("echo %q for %q", got, msg)
			}
			return nil
		}
		if err := exchange("before-the-signal\n"); err != nil {
			ready()
			return "failed: first exchange: " + err.Error()
		}
		ready()
		<-gate(0.5)
		if err := exchange("after-the-signal\n"); err != nil {
			return "failed: exchange 0.5W after the signal: " + err.Error()
		}
		return "ok"
	})
	// ---- HTTP requests (plain and TLS) answered x*W after the signal ----
	for i, x := range []float64{0.2, 0.5, 2, -1, 0.2} {
		if rn.OnlyWS {
			break
		}
		x, i := x, i
		viaTLS := i == 4
		add(fmt.Sprintf("http request answered %.1fW after the signal (tls=%v)", x, viaTLS), x, func(ready func()) string {
			id := fmt.Sprintf("s%d-%d", rn.Index, i)
			body := []byte("late answer " + id)
			up.SetScript(id, &rawhttp.Script{Status: 200, Framing: "length", Body: body, Gate: gate(x), Headers: []rawhttp.Header{{Name: "Content-Type", Value: "text/plain"}}})
			go func() {
				for k := 0; k < 400; k++ {
					if up.Seen(id) {
						break
					}
					time.Sleep(5 * time.Millisecond)
				}
				ready()
			}()
			d := rawhttp.Dial{Addr: httpA, Timeout: 40 * time.Second}
			if viaTLS {
				d = rawhttp.Dial{Addr: httpsA, TLS: true, SNI: "fabio.test", Timeout: 40 * time.Second}
			}
			resp := rawhttp.Do(d, []byte(fmt.Sprintf("GET /slow HTTP/1.1\r\nHost: web.test\r\nX-Verif-Id: %s\r\nConnection: close\r\n\r\n", id)), "GET")
			if resp.Err != nil {
				return "failed: " + resp.Err.Error()
			}
			if resp.Status != 200 || string(resp.Body) != string(body) {
				return fmt.Sprintf("failed: status %d body %.40q", resp.Status, resp.Body)
			}
			return "ok"
		})
	}
	// ---- a chunked download in progress, finished 0.4W after the signal ----
	downloadDue := 0.4
	if rn.OnlyWS {
		downloadDue = -2 // not started in this run
	}
	add("chunked download completing 0.4W after the signal", downloadDue, func(ready func()) string {
		if rn.OnlyWS {
			ready()
			return "ok"
		}
		id := fmt.Sprintf("dl%d", rn.Index)
		body := make([]byte, 200000)
		rand.New(rand.NewSource(int64(rn.Index))).Read(body)
		up.SetScript(id, &rawhttp.Script{Status: 200, Framing: "chunked", Body: body, Gate: gate(0.4), GateAfter: 100000, Headers: []rawhttp.Header{{Name: "Content-Type", Value: "application/octet-stream"}}})
		go func() { time.Sleep(300 * time.Millisecond); ready() }()
		resp := rawhttp.Do(rawhttp.Dial{Addr: httpA, Timeout: 40 * time.Second}, []byte(fmt.Sprintf("GET /download HTTP/1.1\r\nHost: web.test\r\nX-Verif-Id: %s\r\nConnection: close\r\n\r\n", id)), "GET")
		if resp.Err != nil || resp.Status != 200 || len(resp.Body) != len(body) {
			return fmt.Sprintf("failed: err %v status %d, %d of %d bytes", resp.Err, resp.Status, len(resp.Body), len(body))
		}
		return "ok"
	})
	// ---- TCP and SNI tunnels ----
	var sigTime atomic.Value
	if !rn.NoTCP {
		hello := c09Hello("sni.test")
		tunnel := func(kind, mode string, due float64) {
			add(fmt.Sprintf("%s tunnel %s", kind, mode), due, func(ready func()) string {
				a := tcpA
				if kind == "sni" {
					a = sniA
				}
				conn, err := net.DialTimeout("tcp", a, 5*time.Second)
				if err != nil {
					ready()
					return "failed: " + err.Error()
				}
				defer conn.Close()
				br := bufio.NewReader(conn)
				if kind == "sni" {
					conn.Write(hello)
					echo := make([]byte, len(hello))
					conn.SetReadDeadline(time.Now().Add(10 * time.Second))
					if _, err := io.ReadFull(br, echo); err != nil {
						ready()
						return "failed: hello echo: " + err.Error()
					}
				}
				n := 0
				ping := func() error {
					msg := fmt.Sprintf("ping-%d\n", n)
					n++
					conn.SetDeadline(time.Now().Add(10 * time.Second))
					if _, err := conn.Write([]byte(msg)); err != nil {
						return err
					}
					l, err := br.ReadString('\n')
					if err != nil {
						return err
					}
					if l != msg {
						return fmt.Errorf("echo %q for %q", l, msg)
					}
					return nil
				}
				if err := ping(); err != nil {
					ready()
					return "failed: first exchange: " + err.Error()
				}
				ready()
				switch mode {
				case "halfclosed":
					// the client has sent everything and half-closed; the upstream stays open and silent
					conn.Write([]byte("hold\n"))
					conn.SetReadDeadline(time.Now().Add(10 * time.Second))
					br.ReadString('\n')
					if tc, ok := conn.(*net.TCPConn); ok {
						tc.CloseWrite()
					}
					conn.SetReadDeadline(time.Now().Add(60 * time.Second))
					br.ReadString('\n') // ends when fabio closes the tunnel
					return "ended"
				case "idle":
					conn.SetReadDeadline(time.Now().Add(60 * time.Second))
					br.ReadString('\n') // ends when fabio closes the tunnel
					return "ended"
				case "exchanging":
					for {
						if err := ping(); err != nil {
							return "ended"
						}
						time.Sleep(50 * time.Millisecond)
					}
				default: // finishing at due*W after the signal
					for {
						if err := ping(); err != nil {
							return "failed: tunnel broke before it was due to finish: " + err.Error()
						}
						if st, ok := sigTime.Load().(time.Time); ok && time.Since(st) >= time.Duration(due*float64(rn.W)) {
							return "ok"
						}
						time.Sleep(30 * time.Millisecond)
					}
				}
			})
		}
		tunnel("tcp", "idle", -1)
		tunnel("tcp", "halfclosed", -1)
		tunnel("tcp", "exchanging", -1)
		tunnel("tcp", "finishing", 0.3)
		tunnel("sni", "idle", -1)
		tunnel("sni", "finishing", 0.3)
	}
	// ---- gRPC ----
	var cc *grpc.ClientConn
	if !rn.NoGRPC {
		cc, err = grpc.NewClient(grpcA, grpc.WithTransportCredentials(insecure.NewCredentials()))
		if err != nil {
			c.R.Inconcl("grpc client: %v", err)
			return
		}
		defer cc.Close()
		add("grpc unary call finishing 0.3W after the signal", 0.3, func(ready func()) string {
			id := fmt.Sprintf("u%d", rn.Index)
			reply, _ := proto.Marshal(wrapperspb.String("reply"))
			sc := &c16Script{Msgs: [][]byte{reply}, Gate: gate(0.3)}
			scripts.Store(id, sc)
			ctx, cancel := context.WithTimeout(metadata.AppendToOutgoingContext(context.Background(), "x-verif-id", id), 60*time.Second)
			defer cancel()
			st, err := cc.NewStream(ctx, &grpc.StreamDesc{ServerStreams: true, ClientStreams: true}, "/pkg.G/Unary", grpc.ForceCodec(rawCodec{}))
			if err != nil {
				ready()
				return "failed: " + err.Error()
			}
			m, _ := proto.Marshal(wrapperspb.String("request"))
			st.SendMsg(&m)
			st.CloseSend()
			go func() {
				for k := 0; k < 400; k++ {
					sc.mu.Lock()
					called := sc.called
					sc.mu.Unlock()
					if called {
						break
					}
					time.Sleep(5 * time.Millisecond)
				}
				ready()
			}()
			var got []byte
			if err := st.RecvMsg(&got); err != nil {
				return "failed: " + err.Error()
			}
			if string(got) != string(reply) {
				return fmt.Sprintf("failed: reply %q", got)
			}
			var x []byte
			if err := st.RecvMsg(&x); err != io.EOF {
				return fmt.Sprintf("failed: status %v", err)
			}
			return "ok"
		})
		add("grpc bidi stream that never ends", -1, func(ready func()) string {
			id := fmt.Sprintf("b%d", rn.Index)
			scripts.Store(id, &c16Script{})
			ctx, cancel := context.WithTimeout(metadata.AppendToOutgoingContext(context.Background(), "x-verif-id", id), 90*time.Second)
			defer cancel()
			st, err := cc.NewStream(ctx, &grpc.StreamDesc{ServerStreams: true, ClientStreams: true}, "/pkg.G/Bidi", grpc.ForceCodec(rawCodec{}))
			if err != nil {
				ready()
				return "failed: " + err.Error()
			}
			m, _ := proto.Marshal(wrapperspb.String("first"))
			st.SendMsg(&m)
			go func() { time.Sleep(300 * time.Millisecond); ready() }()
			var x []byte
			err = st.RecvMsg(&x) // blocks: the backend waits for more messages which never come
			return "ended: " + status.Code(err).String()
		})
	}
	// wait until everything is in flight
	okStart := make(chan struct{})
	go func() { started.Wait(); close(okStart) }()
	select {
	case <-okStart:
	case <-time.After(30 * time.Second):
		c.R.Inconcl("%s: in-flight work could not be established within 30s", desc)
		return
	}
	time.Sleep(rn.SigAt)
	echoBefore, hitsBefore, grpcBefore := echoConns.Load(), up.Hits.Load(), gb.calls.Load()
	t0 := time.Now()
	sigTime.Store(t0)
	rg.expectExit = true
	rg.proc.Signal(syscall.SIGTERM)
	for x, g := range gates {
		if x >= 0 {
			x, g := x, g
			time.AfterFunc(time.Duration(x*float64(rn.W)), func() { close(g) })
		}
	}
	// ---- probes: new connections after G+0.5s must be refused or never served ----
	var probes, refused, accepted atomic.Int64
	var served atomic.Value
	stopProbes := make(chan struct{})
	var pwg sync.WaitGroup
	pwg.Add(1)
	go func() {
		defer pwg.Done()
		time.Sleep(rn.G + 500*time.Millisecond)
		for {
			select {
			case <-stopProbes:
				return
			default:
			}
			for _, a := range listeners {
				probes.Add(1)
				pc, err := net.DialTimeout("tcp", a, 300*time.Millisecond)
				if err != nil {
					refused.Add(1)
					continue
				}
				accepted.Add(1)
				// the kernel completed the connection: it must never be served
				switch a {
				case httpA:
					fmt.Fprintf(pc, "GET /probe HTTP/1.1\r\nHost: web.test\r\nConnection: close\r\n\r\n")
				case tcpA, dynA:
					pc.Write([]byte("probe\n"))
				case sniA:
					pc.Write(c09Hello("sni.test"))
				}
				pc.SetReadDeadline(time.Now().Add(250 * time.Millisecond))
				buf := make([]byte, 64)
				if n, _ := pc.Read(buf); n > 0 && a != httpsA && a != grpcA {
					served.Store(fmt.Sprintf("listener %s answered %q to a connection made %s after the signal", a, buf[:n], time.Since(t0).Round(time.Millisecond)))
				}
				pc.Close()
			}
			time.Sleep(50 * time.Millisecond)
		}
	}()
	// ---- exit bound ----
	slack := 3 * time.Second
	if rn.W > slack {
		slack = rn.W
	}
	bound := rn.G + rn.W + slack
	var exitAfter time.Duration
	exited := false
	select {
	case <-rg.proc.Exited():
		exited = true
		exitAfter = time.Since(t0)
	case <-time.After(bound):
	}
	if !exited {
		// separate generous watchdog before killing
		select {
		case <-rg.proc.Exited():
			exitAfter = time.Since(t0)
		case <-time.After(45 * time.Second):
			exitAfter = -1
		}
	}
	close(stopProbes)
	pwg.Wait()
	for x, g := range gates {
		if x < 0 {
			close(g)
		}
	}
	c.R.Nontrivial(desc)
	c.R.Eval(int64(len(items)) + probes.Load())
	c.R.Count("connection_probes", probes.Load())
	c.R.Count("probes_refused", refused.Load())
	c.R.Count("probes_accepted_by_kernel", accepted.Load())
	openWork := "never-answered request"
	if !rn.NoGRPC {
		openWork += ", endless grpc stream"
	}
	if !rn.NoTCP {
		openWork += ", idle tunnels"
	}
	switch {
	case exitAfter < 0:
		c.R.Violate("c18:shutdown-never-returned", fmt.Sprintf("%s: fabio was still running %s after SIGTERM (bound %s) with open work: %s", desc, (bound+45*time.Second).Round(time.Second), bound, openWork), in)
		rg.proc.Kill()
	case !exited:
		sig := "c18:shutdown-exceeds-wait"
		if !rn.NoGRPC {
			sig += ":grpc-listener"
		}
		c.R.Violate(sig, fmt.Sprintf("%s: fabio exited %s after SIGTERM, the bound is G+W+slack = %s (open work: %s)", desc, exitAfter.Round(time.Millisecond), bound, openWork), in)
	default:
		c.R.MaxCounter("exit_after_ms_max", exitAfter.Milliseconds())
		if ee, ok := rg.proc.ExitErr.(interface{ ExitCode() int }); ok && ee.ExitCode() != 0 {
			c.R.Violate("c18:exit-code", fmt.Sprintf("%s: exit code %d", desc, ee.ExitCode()), in)
		}
	}
	if s, _ := served.Load().(string); s != "" {
		c.R.Violate("c18:new-connection-served-during-shutdown", desc+": "+s, in)
	}
	if n := echoConns.Load() - echoBefore; n > 0 {
		c.R.Violate("c18:new-tunnel-during-shutdown", fmt.Sprintf("%s: %d new upstream tunnel connection(s) were opened after the signal", desc, n), in)
	}
	_ = hitsBefore
	if n := gb.calls.Load() - grpcBefore; n > 0 {
		c.R.Violate("c18:new-grpc-call-during-shutdown", fmt.Sprintf("%s: %d new gRPC call(s) reached the backend after the signal", desc, n), in)
	}
	// after exit every listener refuses
	if exitAfter >= 0 {
		for _, a := range listeners {
			if pc, err := net.DialTimeout("tcp", a, 300*time.Millisecond); err == nil {
				pc.Close()
				// the process is gone: whoever accepts here is somebody else who was given the port meanwhile
				c.R.Count("ports_reused_by_others_after_exit", 1)
			}
		}
	}
	// ---- in-flight outcomes ----
	for _, it := range items {
		var res string
		select {
		case res = <-it.result:
		case <-time.After(20 * time.Second):
			res = "no outcome within 20s after exit"
		}
		c.R.Count("inflight_items", 1)
		// (with a wait of zero nothing is "in flight and due within the wait": only the bounds are checked in such a run)
		if it.due >= 0 && it.due <= 0.5 && rn.W > 0 {
			if res != "ok" {
				c.R.Violate("c18:inflight-work-not-drained:"+strings.Fields(it.name)[0], fmt.Sprintf("%s: %s -> %s", desc, it.name, res), in)
			} else {
				c.R.Count("drained_items_ok", 1)
			}
		}
	}
	if c.R.WantSample() {
		c.R.Sample(map[string]any{"run": desc, "exit_after": exitAfter.String(), "bound": bound.String(), "probes": probes.Load(), "refused": refused.Load(), "items": len(items)})
	}
	_ = tls.VersionTLS12
	_ = codes.OK
}
