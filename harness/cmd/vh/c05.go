package main

import (
	"fmt"
	"math/rand"
	"strings"

	"verif/harness/internal/refmodel"
)

func init() { register("c05-model", "C05", c05Model) }

var (
	c05Services = []string{"svc-a", "svc-b", "svc-c", "svc-d"}
	c05Hosts    = []string{"a.com", "b.com", "x.y.org", "c.net:8080", ""}
	c05Paths    = []string{"/", "/a", "/a/b", "/c/", "/A"}
	c05Dsts     = []string{"http://10.0.0.1:80/", "http://10.0.0.2:8080/", "https://10.0.0.3:443/", "http://10.0.0.4:80/x?y=1", "http://[::1]:8000/", "http://h5:80", "http://10.0.0.6:80/caf\u00e9", "http://10.0.0.7:80/#"}
	c05Weights  = []float64{0, 0, -1, -0.5, 0.05, 0.1, 0.25, 0.3333, 0.5, 0.75, 1, 1.5, 2, 0.00002, 0.00004} // the last two: less than the four decimals of the text rendering can carry
	c05Tags     = []string{"a", "b", "c", "d", "dc\\east", "t\tab", "z\u200bw"}                              // the last three: a backslash, a TAB, a zero-width space
	c05OptPool  = []string{"strip=/a", "prepend=/p", "proto=https", "host=dst", "host=x.com", "tlsskipverify=true", "register=alias", "redirect=301", "pxyproto=true", "flag"}
)

// c05Spell returns an equivalent spelling of a destination URL (same URL after parsing).
func c05Spell(r *rand.Rand, dst string) string {
	if r.Intn(4) == 0 {
		if i := strings.Index(dst, "://"); i > 0 {
			return strings.ToUpper(dst[:i]) + dst[i:]
		}
	}
	return dst
}

type c05Script struct {
	Lines     []string
	defs      []refmodel.Def
	kinds     map[string]bool
	mixed     bool
	negWeight bool // a 'route weight' with a negative weight matched a target
}

// genScript generates a command script and interprets it with the model on the fly.
func genScript(r *rand.Rand, n int) (*c05Script, refmodel.Table) {
	m := refmodel.Table{}
	s := &c05Script{kinds: map[string]bool{}}
	optsFor := map[string]map[string]string{}
	src := func() (string, string) {
		h := choose(r, c05Hosts)
		p := choose(r, c05Paths)
		w := h
		if r.Intn(3) == 0 {
			w = randCase(r, h)
			if w != h {
				s.mixed = true
			}
		}
		return h + p, w + p
	}
	var adds []refmodel.Def
	for len(s.Lines) < n {
		var d refmodel.Def
		k := r.Intn(10)
		if len(adds) > 0 && r.Intn(8) == 0 {
			k = 100 // an earlier add once more, verbatim: add is idempotent whatever happened in between
		}
		switch {
		case k == 100:
			d = adds[r.Intn(len(adds))]
		case k < 6:
			_, w := src()
			svc := choose(r, c05Services)
			dst := choose(r, c05Dsts)
			key := svc + " " + dst
			if _, ok := optsFor[key]; !ok {
				var o map[string]string
				if r.Intn(2) == 0 {
					o = map[string]string{}
					for _, kv := range subset(r, c05OptPool, 3) {
						p := strings.SplitN(kv, "=", 2)
						if len(p) == 1 {
							o[p[0]] = ""
						} else {
							o[p[0]] = p[1]
						}
					}
					if len(o) == 0 {
						o = nil
					}
				}
				optsFor[key] = o
			}
			d = refmodel.Def{Cmd: "add", Service: svc, Src: w, Dst: c05Spell(r, dst), Weight: choose(r, c05Weights), Tags: subset(r, c05Tags, 3), Opts: optsFor[key]}
			if len(d.Tags) == 0 && r.Intn(6) == 0 {
				d.BlankTags = choose(r, []string{" ", "  ", "\u00a0"}) // a quoted list of white space: no tags
			}
		case k < 8:
			d = refmodel.Def{Cmd: "del"}
			switch r.Intn(5) {
			case 0:
				d.Service = choose(r, c05Services)
			case 1:
				d.Service = choose(r, c05Services)
				_, d.Src = src()
			case 2:
				d.Service = choose(r, c05Services)
				_, d.Src = src()
				d.Dst = c05Spell(r, choose(r, c05Dsts))
			case 3:
				d.Service = choose(r, c05Services)
				d.Tags = subset(r, c05Tags, 2)
				if d.Tags == nil {
					d.Tags = []string{choose(r, c05Tags)}
				}
			case 4:
				d.Tags = subset(r, c05Tags, 2)
				if d.Tags == nil {
					d.Tags = []string{choose(r, c05Tags)}
				}
			}
		default:
			d = refmodel.Def{Cmd: "weight", Weight: choose(r, c05Weights[1:])}
			_, d.Src = src()
			switch r.Intn(3) {
			case 0:
				d.Service = choose(r, c05Services)
			case 1:
				d.Service = choose(r, c05Services)
				d.Tags = []string{choose(r, c05Tags)}
			case 2:
				d.Tags = []string{choose(r, c05Tags)}
			}
			if !m.WouldMatchWeight(d) && r.Intn(4) > 0 {
				// mostly aim the command at an existing route so that weight commands are exercised; a command that
				// matches nothing stays in now and then: it must change nothing
				continue
			}
		}
		matchedNeg := d.Cmd == "weight" && d.Weight < 0 && m.WouldMatchWeight(d)
		if err := m.Apply(d); err != nil {
			continue
		}
		if matchedNeg {
			s.negWeight = true
		}
		s.kinds[d.Cmd] = true
		s.defs = append(s.defs, d)
		if d.Cmd == "add" {
			adds = append(adds, d)
		}
		s.Lines = append(s.Lines, d.Text())
	}
	m.Normalize()
	return s, m
}

func c05Model(c *ctx) {
	n := c.scale(c.pick(30000, 600000))
	c.R.Rule = "random scripts of 1-40 add/del/weight commands interpreted by the reference model and by route.NewTable; compared on exported fields; round trip NewTable(String()) when no two targets of a route differ only in weight. non-trivial = script uses >=2 command kinds and a mixed-case host; distinct by script text"
	if c.Replay != "" {
		var in struct{ Lines []string }
		loadReplay(c, &in)
		c05Check(c, nil, in.Lines)
		return
	}
	parallel(c, n, func(r *rand.Rand, i int) {
		s, m := genScript(r, 1+r.Intn(40))
		c.R.Eval(1)
		if len(s.kinds) >= 2 && s.mixed {
			c.R.Nontrivial(strings.Join(s.Lines, "\n"))
		}
		if len(s.kinds) >= 2 && len(s.Lines) < 12 && c.R.WantSample() {
			c.R.Sample(map[string]any{"script": s.Lines})
		}
		if s.negWeight {
			c.R.Count("scripts_with_matched_negative_route_weight", 1)
		}
		c05CheckModel(c, s.Lines, m)
		if i%40 == 0 {
			c05OddTarget(c, r, s.Lines)
		}
	})
}

// c05OddTarget: an add whose target is a string the URL parser maps to nothing ('#') or to something that is not
// rendered the way it was written, put into an otherwise well-formed script. Whether such a command is accepted is
// not fixed by the statement; if the script is accepted, the text rendering of the table must be accepted again.
func c05OddTarget(c *ctx, r *rand.Rand, lines []string) {
	odd := fmt.Sprintf("route add %s %s%s %s", choose(r, c05Services), choose(r, c05Hosts), choose(r, c05Paths), choose(r, []string{"#", "#frag", "?", "?#", "//", "http://", "x"}))
	at := r.Intn(len(lines) + 1)
	all := append(append(append([]string{}, lines[:at]...), odd), lines[at:]...)
	c.R.Eval(1)
	t, err := newTable(strings.Join(all, "\n"))
	if err != nil {
		c.R.Count("odd_target_scripts_rejected", 1)
		return
	}
	c.R.Count("odd_target_scripts_accepted", 1)
	txt := t.String()
	if _, err := newTable(txt); err != nil {
		c.R.Violate("c05:roundtrip:rejected:odd-target", fmt.Sprintf("a script holding %q is accepted but the rendering of its table is not: %v\n%s", odd, err, txt), map[string]any{"Lines": all})
	}
}

func c05Check(c *ctx, _ any, lines []string) {
	// replay: re-interpret the script text with the model via the real parser's field extraction is not
	// independent, so re-run generation is not possible; we re-parse our own canonical command text.
	m := refmodel.Table{}
	for _, l := range lines {
		d, ok := parseOwn(l)
		if !ok {
			c.R.Inconcl("replay: cannot re-read %q", l)
			return
		}
		m.Apply(d)
	}
	m.Normalize()
	c.R.Eval(1)
	c05CheckModel(c, lines, m)
}

func c05CheckModel(c *ctx, lines []string, m refmodel.Table) {
	text := strings.Join(lines, "\n")
	in := map[string]any{"Lines": lines}
	var perr string
	t, err := newTable(text)
	if err != nil {
		c.R.Violate("c05:rejected:"+classifyErr(err.Error()), fmt.Sprintf("well-formed script rejected: %v", err), in)
		return
	}
	_ = perr
	got, problems := flattenReal(t)
	for _, p := range problems {
		c.R.Violate("c05:structure", p, in)
	}
	want := m.Flatten()
	if d := diffFlat(want, got, 1e-12, 1e-9); d != "" {
		c.R.Violate("c05:semantics:"+classifyDiff(lines, want, got), d, in)
		return
	}
	// round trip
	pre := true
	seen := map[string]bool{}
	for _, f := range got {
		k := fmt.Sprintf("%s|%s|%s|%s|%v", f.Host, f.Path, f.Service, f.Dst, f.Tags)
		if seen[k] {
			pre = false
		}
		seen[k] = true
	}
	if !pre {
		c.R.Count("roundtrip_skipped_precondition", 1)
		return
	}
	c.R.Count("roundtrips", 1)
	txt := t.String()
	t2, err := newTable(txt)
	if err != nil {
		c.R.Violate("c05:roundtrip:rejected", fmt.Sprintf("String() output rejected by parser: %v\n%s", err, txt), in)
		return
	}
	got2, _ := flattenReal(t2)
	if d := diffFlat(got, got2, 1e-4, 1e-3); d != "" {
		sig := "c05:roundtrip:differs"
		if len(got2) < len(got) {
			zero := 0
			for _, f := range got {
				if f.Weight <= 0 {
					zero++
				}
			}
			if zero == len(got)-len(got2) {
				sig = "c05:roundtrip:zero-weight-target-dropped"
			}
		}
		c.R.Violate(sig, "NewTable(String()) differs from the table: "+d+"\ntext:\n"+txt, in)
	}
}

func classifyErr(e string) string {
	switch {
	case strings.Contains(e, "no target match"):
		return "weight-no-match"
	case strings.Contains(e, "syntax error"):
		return "syntax"
	}
	return "other"
}

// classifyDiff gives the violation a signature naming the command kind most likely responsible.
func classifyDiff(lines []string, want, got []refmodel.FlatTarget) string {
	switch {
	case len(got) > len(want):
		return "extra-targets"
	case len(got) < len(want):
		return "missing-targets"
	}
	return "fields"
}

// parseOwn re-reads a command rendered by refmodel.Def.Text (used only by replay).
func parseOwn(l string) (refmodel.Def, bool) {
	f := splitQuoted(l)
	if len(f) < 3 || f[0] != "route" {
		return refmodel.Def{}, false
	}
	d := refmodel.Def{Cmd: f[1]}
	rest := f[2:]
	take := func(key string) (string, bool) {
		for i := 0; i+1 < len(rest); i++ {
			if rest[i] == key {
				v := rest[i+1]
				rest = append(rest[:i:i], rest[i+2:]...)
				return v, true
			}
		}
		return "", false
	}
	if v, ok := take("tags"); ok {
		if strings.TrimSpace(v) == "" {
			d.BlankTags = v
		} else {
			for _, t := range strings.Split(v, ",") {
				d.Tags = append(d.Tags, t)
			}
		}
	}
	if v, ok := take("opts"); ok {
		d.Opts = map[string]string{}
		for _, kv := range strings.Fields(v) {
			p := strings.SplitN(kv, "=", 2)
			if len(p) == 1 {
				d.Opts[p[0]] = ""
			} else {
				d.Opts[p[0]] = p[1]
			}
		}
	}
	if v, ok := take("weight"); ok {
		fmt.Sscanf(v, "%g", &d.Weight)
	}
	switch d.Cmd {
	case "add":
		if len(rest) != 3 {
			return d, false
		}
		d.Service, d.Src, d.Dst = rest[0], rest[1], rest[2]
	case "del":
		if len(d.Tags) > 0 {
			if len(rest) == 1 {
				d.Service = rest[0]
			}
		} else {
			if len(rest) > 0 {
				d.Service = rest[0]
			}
			if len(rest) > 1 {
				d.Src = rest[1]
			}
			if len(rest) > 2 {
				d.Dst = rest[2]
			}
		}
	case "weight":
		if len(rest) == 2 {
			d.Service, d.Src = rest[0], rest[1]
		} else if len(rest) == 1 {
			d.Src = rest[0]
		} else {
			return d, false
		}
	}
	return d, true
}

func splitQuoted(l string) []string {
	var out []string
	for len(l) > 0 {
		l = strings.TrimLeft(l, " ")
		if l == "" {
			break
		}
		if l[0] == '"' {
			j := strings.Index(l[1:], `"`)
			if j < 0 {
				out = append(out, l[1:])
				break
			}
			out = append(out, l[1:1+j])
			l = l[j+2:]
			continue
		}
		j := strings.Index(l, " ")
		if j < 0 {
			out = append(out, l)
			break
		}
		out = append(out, l[:j])
		l = l[j:]
	}
	return out
}
