package main

import (
	"fmt"
	"io"
	"net/http"
	"net/http/httptest"
	"net/url"
	"runtime"
	"strings"
	"sync"
	"sync/atomic"
	"time"

	"github.com/anishathalye/porcupine"
	"github.com/fabiolb/fabio/config"
	"github.com/fabiolb/fabio/proxy"
	"github.com/fabiolb/fabio/route"
)

func init() { register("c06-concurrent", "C06", c06Concurrent) }

var c06Weights = [][]float64{{0.1, 0.9}, {0.2, 0.3, 0.5}, {0.05, 0, 0}, {0.6, 0.25, 0.15}, {0.01, 0.99}, {0.3333, 0.3333, 0.3334}, {0.5, 0, 0, 0}, {0.7, 0.2, 0, 0.1},
	{0, 0}, {0, 0, 0}, {0, 0, 0, 0, 0, 0, 0}} // the last three: short rings of equal targets, the cursor wraps every few lookups

const c06Globs = 48

func c06Script() string {
	var b strings.Builder
	b.WriteString("route add redir redir.test/p http://new.test$path opts \"redirect=301\"\n")
	b.WriteString("route add redirh redirh.test/ https://$host/moved$path opts \"redirect=302\"\n")
	b.WriteString("route add redirs redirs.test/ https://static.test/fixed opts \"redirect=308\"\n")
	b.WriteString("route add redirho *.hostonly.test/ https://$host/login opts \"redirect=302\"\n") // depends on the request through $host alone
	b.WriteString("route add redirq redirq.test/q/ http://new.test/base/$path opts \"redirect=307 strip=/q\"\n")
	for k, ws := range c06Weights {
		for j, w := range ws {
			fmt.Fprintf(&b, "route add w%d w%d.test/ http://10.6.%d.%d:80/", k, k, k, j)
			if w > 0 {
				fmt.Fprintf(&b, " weight %g", w)
			}
			b.WriteString("\n")
		}
	}
	b.WriteString("route add acl acl.test/ http://10.8.0.1:80/ opts \"allow=ip:10.0.0.0/8,ip:fd00::/8\"\n")
	b.WriteString("route add acld acld.test/ http://10.8.0.2:80/ opts \"deny=ip:172.16.0.0/12\"\n")
	b.WriteString("route add plain plain.test/ http://10.9.0.1:80/\n")
	return b.String()
}

// c06GlobScript: more wildcard hosts than the caches hold (every lookup walks all patterns).
func c06GlobScript() string {
	var b strings.Builder
	for i := 0; i < c06Globs; i++ {
		fmt.Fprintf(&b, "route add g%d *.g%d.test/ http://10.7.%d.%d:80/\n", i, i, i/256, i%256)
	}
	return b.String()
}

type c06Stub struct{ hits atomic.Int64 }

func (s *c06Stub) RoundTrip(r *http.Request) (*http.Response, error) {
	s.hits.Add(1)
	body := "upstream=" + r.URL.Host + " path=" + r.URL.Path
	return &http.Response{StatusCode: 200, Header: http.Header{"X-Up": {r.URL.Host}}, Body: io.NopCloser(strings.NewReader(body)), ContentLength: int64(len(body)), Request: r, Proto: "HTTP/1.1", ProtoMajor: 1, ProtoMinor: 1}, nil
}

func c06Concurrent(c *ctx) {
	c.R.Rule = "64 goroutines issue unique requests (own path, host and RemoteAddr) on one shared table with redirect routes ($path/$host/static/strip), 8 weighted routes, 48 wildcard hosts behind a GlobCache of 8/32, allow/deny routes; per-request oracle computed from the request alone (target, Location, access decision), exact-share conservation per weighted route on a stable table, porcupine fetch-and-increment histories of a 64-slot ring, cache entries <= capacity; second pass through HTTPProxy.ServeHTTP with a stub transport while a writer replaces the table; race detector on. evaluations = lookups/requests; non-trivial = lookup that observed another lookup in flight on the same route kind (first 4000 per kind counted); distinct by (kind, goroutine, iteration)"
	script := c06Script()
	_, err := newTable(script)
	if err != nil {
		c.R.Inconcl("table: %v", err)
		return
	}
	pickRR := route.Picker["rr"]
	match := route.Matcher["prefix"]
	const G = 64
	rounds := c.scale(c.pick(2, 40))
	var inflight [5]atomic.Int32
	var ntCount [5]atomic.Int32
	mark := func(kind, g, i int) func() {
		if inflight[kind].Add(1) > 1 && ntCount[kind].Add(1) <= 4000 {
			c.R.Nontrivial(fmt.Sprintf("%d/%d/%d", kind, g, i))
		}
		return func() { inflight[kind].Add(-1) }
	}
	for round := 0; round < rounds; round++ {
		procs := 16
		if round%2 == 1 {
			procs = 4
		}
		runtime.GOMAXPROCS(procs)
		// a fresh table object per round: cursors start at zero
		t, _ := newTable(script)
		tg, _ := newTable(c06GlobScript())
		gcs := []*route.GlobCache{route.NewGlobCache(8), route.NewGlobCache(32), route.NewGlobCache(0)} // size 0: nothing may be kept
		// ---------- phase A: stable table, exact share ----------
		counts := make([]map[string]*atomic.Int64, len(c06Weights))
		ringLen := make([]int, len(c06Weights))
		slots := make([]map[string]int, len(c06Weights))
		cycles := make([]int, len(c06Weights))
		for k := range c06Weights {
			counts[k] = map[string]*atomic.Int64{}
			slots[k] = map[string]int{}
			r0 := t[fmt.Sprintf("w%d.test", k)][0]
			ringLen[k] = len(r0.VerifRing())
			cycles[k] = 2
			if ringLen[k] > 0 && ringLen[k] < 3000 {
				cycles[k] = (6000 + ringLen[k] - 1) / ringLen[k] // short rings: thousands of wrap-arounds
			}
			for _, x := range r0.VerifRing() {
				slots[k][x.URL.Host]++
			}
			for _, x := range r0.Targets {
				counts[k][x.URL.Host] = new(atomic.Int64)
			}
		}
		var wg sync.WaitGroup
		var failed atomic.Bool
		tA := time.Now()
		for g := 0; g < G; g++ {
			wg.Add(1)
			go func(g int) {
				defer wg.Done()
				gc := gcs[g%len(gcs)]
				// goroutine g performs lookups number g, g+64, ... of cycles*ringLen per weighted route: whole cycles in total
				for k := range c06Weights {
					host := fmt.Sprintf("w%d.test", k)
					for i := g; i < cycles[k]*ringLen[k]; i += G {
						done := mark(0, g, i)
						req := &http.Request{Host: host, URL: &url.URL{Path: fmt.Sprintf("/g%d/i%d", g, i)}, Header: http.Header{}, RemoteAddr: fmt.Sprintf("10.%d.%d.1:999", g, i%250)}
						var x *route.Target
						pmsg := safely(func() { x = t.Lookup(req, "", pickRR, match, gc, false) })
						done()
						c.R.Eval(1)
						if pmsg != "" {
							c.R.Violate("c06:lookup-panic", "lookup on a weighted route panicked: "+pmsg, nil)
							failed.Store(true)
							return
						}
						if x == nil || counts[k][x.URL.Host] == nil {
							if !failed.Swap(true) {
								c.R.Violate("c06:weighted-wrong-target", fmt.Sprintf("lookup for %s returned %v", host, x), nil)
							}
							return
						}
						counts[k][x.URL.Host].Add(1)
						if (i/G)%24 == 0 {
							c06Unique(c, t, tg, gc, g, i, &failed, mark)
						}
					}
				}
			}(g)
		}
		wg.Wait()
		c.R.Count("phaseA_ms", time.Since(tA).Milliseconds())
		if failed.Load() {
			continue
		}
		for k := range c06Weights {
			for h, n := range counts[k] {
				want := int64(cycles[k] * slots[k][h])
				if n.Load() != want {
					c.R.Violate("c06:rr-share-not-exact", fmt.Sprintf("round %d GOMAXPROCS %d route w%d.test: target %s picked %d times in %d lookups, exact share is %d (ring %d, slots %d)", round, procs, k, h, n.Load(), cycles[k]*ringLen[k], want, ringLen[k], slots[k][h]), map[string]any{"route": k})
				}
			}
		}
		for ci, gc := range gcs {
			n, capacity := gc.VerifLen()
			c.R.MaxCounter(fmt.Sprintf("globcache%d_max_entries", capacity), int64(n))
			if n > capacity {
				c.R.Violate("c06:globcache-over-capacity", fmt.Sprintf("cache %d holds %d entries, capacity %d", ci, n, capacity), nil)
			}
		}
		// ---------- phase B: through the HTTP proxy while the table is being replaced ----------
		route.SetTable(t)
		tB := time.Now()
		stop := make(chan struct{})
		var wwg sync.WaitGroup
		wwg.Add(1)
		go func() {
			defer wwg.Done()
			for {
				select {
				case <-stop:
					return
				default:
				}
				nt, err := newTable(script)
				if err == nil {
					route.SetTable(nt)
					c.R.Count("table_replacements", 1)
				}
				time.Sleep(time.Millisecond)
			}
		}()
		stub := &c06Stub{}
		gc := route.NewGlobCache(8)
		hp := &proxy.HTTPProxy{
			Config:    config.Proxy{},
			Transport: stub,
			Lookup: func(r *http.Request) *route.Target {
				return route.GetTable().Lookup(r, "", pickRR, match, gc, false)
			},
		}
		hpg := &proxy.HTTPProxy{
			Config:    config.Proxy{},
			Transport: stub,
			Lookup: func(r *http.Request) *route.Target {
				return tg.Lookup(r, "", pickRR, match, gc, false)
			},
		}
		per := c.pick(60, 200)
		for g := 0; g < G; g++ {
			wg.Add(1)
			go func(g int) {
				defer wg.Done()
				for i := 0; i < per; i++ {
					c06ViaProxy(c, hp, hpg, g, i+round*1000, &failed, mark)
				}
			}(g)
		}
		wg.Wait()
		c.R.Count("phaseB_ms", time.Since(tB).Milliseconds())
		close(stop)
		wwg.Wait()
		if n, capacity := gc.VerifLen(); n > capacity {
			c.R.Violate("c06:globcache-over-capacity", fmt.Sprintf("proxy cache holds %d entries, capacity %d", n, capacity), nil)
		}
		// ---------- phase D: exact share over lookups that go on while the table is replaced ----------
		// the weighted routes stay as they are, an unrelated route changes with every replacement (what any change of any
		// service in the registry does); whole cycles of lookups through GetTable, first from one goroutine that replaces
		// the table before every lookup, then from 64 goroutines next to a writer
		if round < 2 || c.thorough() {
			route.SetTable(t)
			gen := 0
			replace := func() {
				gen++
				if nt, err := newTable(script + fmt.Sprintf("\nroute add unrelated u%d.test/ http://10.99.0.1:80/", gen)); err == nil {
					route.SetTable(nt)
					c.R.Count("table_replacements", 1)
				}
			}
			gcD := route.NewGlobCache(32)
			for _, variant := range []string{"sequential", "concurrent"} {
				dcounts := make([]map[string]*atomic.Int64, len(c06Weights))
				for k := range c06Weights {
					dcounts[k] = map[string]*atomic.Int64{}
					for h := range counts[k] {
						dcounts[k][h] = new(atomic.Int64)
					}
				}
				lookup := func(k, g, i int) bool {
					req := &http.Request{Host: fmt.Sprintf("w%d.test", k), URL: &url.URL{Path: fmt.Sprintf("/d/g%d/i%d", g, i)}, Header: http.Header{}}
					var x *route.Target
					pmsg := safely(func() { x = route.GetTable().Lookup(req, "", pickRR, match, gcD, false) })
					c.R.Eval(1)
					if pmsg != "" || x == nil || dcounts[k][x.URL.Host] == nil {
						if !failed.Swap(true) {
							c.R.Violate("c06:weighted-wrong-target", fmt.Sprintf("lookup for w%d.test during replacement returned %v %s", k, x, pmsg), nil)
						}
						return false
					}
					dcounts[k][x.URL.Host].Add(1)
					return true
				}
				if variant == "sequential" {
					for k := range c06Weights {
						if ringLen[k] > 100 {
							continue // one table per lookup: short rings only
						}
						for i := 0; i < cycles[k]*ringLen[k]/10*10 && i < 40*ringLen[k]; i++ {
							replace()
							lookup(k, 0, i)
						}
					}
				} else {
					stopD := make(chan struct{})
					var dw sync.WaitGroup
					dw.Add(1)
					go func() {
						defer dw.Done()
						for {
							select {
							case <-stopD:
								return
							default:
							}
							replace()
							time.Sleep(200 * time.Microsecond)
						}
					}()
					for g := 0; g < G; g++ {
						wg.Add(1)
						go func(g int) {
							defer wg.Done()
							for k := range c06Weights {
								for i := g; i < cycles[k]*ringLen[k]; i += G {
									done := mark(0, g, i)
									ok := lookup(k, g, i)
									done()
									if !ok {
										return
									}
								}
							}
						}(g)
					}
					wg.Wait()
					close(stopD)
					dw.Wait()
				}
				for k := range c06Weights {
					total := int64(0)
					for _, n := range dcounts[k] {
						total += n.Load()
					}
					if total == 0 || ringLen[k] == 0 || total%int64(ringLen[k]) != 0 {
						continue
					}
					for h, n := range dcounts[k] {
						if want := total / int64(ringLen[k]) * int64(slots[k][h]); n.Load() != want {
							c.R.Violate("c06:rr-share-not-exact:across-table-replacement:"+variant, fmt.Sprintf("round %d, %s lookups while the table is replaced (route w%d.test itself unchanged): target %s picked %d times in %d lookups, exact share is %d (ring %d, slots %d)", round, variant, k, h, n.Load(), total, want, ringLen[k], slots[k][h]), map[string]any{"route": k})
						}
					}
					c.R.Count("share_checks_across_replacement", 1)
				}
			}
		}
		c.R.Count("rounds", 1)
	}
	runtime.GOMAXPROCS(16)
	tC := time.Now()
	c06FetchInc(c)
	c.R.Count("phaseC_ms", time.Since(tC).Milliseconds())
	c.R.Sample(map[string]any{"request": "GET http://redir.test/p/g7/i3?x=7-3 from 10.7.3.1", "expect": "301 Location http://new.test/p/g7/i3?x=7-3"})
	c.R.Sample(map[string]any{"request": "lookup Host=xg7.g42.test", "expect": "target of route *.g42.test"})
}

// c06Unique performs lookups whose answer is computed from the request alone.
func c06Unique(c *ctx, t, tg route.Table, gc *route.GlobCache, g, i int, failed *atomic.Bool, mark func(int, int, int) func()) {
	// redirect with $path
	p := fmt.Sprintf("/p/g%d/i%d", g, i)
	req := &http.Request{Host: "redir.test", URL: &url.URL{Path: p, RawQuery: fmt.Sprintf("x=%d-%d", g, i)}, Header: http.Header{}}
	done := mark(1, g, i)
	var x *route.Target
	pm := safely(func() { x = t.Lookup(req, "", route.Picker["rr"], route.Matcher["prefix"], gc, false) })
	done()
	c.R.Eval(1)
	if pm != "" {
		c.R.Violate("c06:lookup-panic", "lookup on a redirect route panicked: "+pm, nil)
		failed.Store(true)
		return
	}
	want := "http://new.test" + p + "?" + req.URL.RawQuery
	if x == nil || x.RedirectURL == nil || x.RedirectURL.String() != want {
		got := "<nil>"
		if x != nil && x.RedirectURL != nil {
			got = x.RedirectURL.String()
		}
		c.R.Violate("c06:redirect-crossed", fmt.Sprintf("goroutine %d iteration %d: redirect for %s is %s, want %s", g, i, p, got, want), nil)
		failed.Store(true)
		return
	}
	// redirect that depends on the request through $host alone
	hhost := fmt.Sprintf("g%d-i%d.hostonly.test", g, i)
	req = &http.Request{Host: hhost, URL: &url.URL{Path: "/whatever"}, Header: http.Header{}}
	done = mark(1, g, i)
	pm = safely(func() { x = t.Lookup(req, "", route.Picker["rr"], route.Matcher["prefix"], gc, false) })
	done()
	c.R.Eval(1)
	if pm != "" {
		c.R.Violate("c06:lookup-panic", "lookup on a redirect route panicked: "+pm, nil)
		failed.Store(true)
		return
	}
	if want := "https://" + hhost + "/login"; x == nil || x.RedirectURL == nil || x.RedirectURL.String() != want {
		got := "<nil>"
		if x != nil && x.RedirectURL != nil {
			got = x.RedirectURL.String()
		}
		c.R.Violate("c06:redirect-crossed:host-only-template", fmt.Sprintf("goroutine %d iteration %d: redirect for host %s is %s, want %s", g, i, hhost, got, want), nil)
		failed.Store(true)
		return
	}
	// glob host
	gi := (g*131 + i*17) % c06Globs
	host := fmt.Sprintf("X%d-%d.g%d.test", g, i, gi)
	req = &http.Request{Host: host, URL: &url.URL{Path: "/"}, Header: http.Header{}}
	done = mark(2, g, i)
	var pmsg string
	pmsg = safely(func() { x = tg.Lookup(req, "", route.Picker["rr"], route.Matcher["prefix"], gc, false) })
	done()
	c.R.Eval(1)
	if pmsg != "" {
		c.R.Violate("c06:globcache-panic", "lookup panicked: "+pmsg, nil)
		failed.Store(true)
		return
	}
	if x == nil || x.Service != fmt.Sprintf("g%d", gi) {
		c.R.Violate("c06:glob-lookup-wrong", fmt.Sprintf("lookup for %s returned %v, want service g%d", host, x, gi), nil)
		failed.Store(true)
		return
	}
	// access decision
	ra := fmt.Sprintf("10.%d.%d.7:5000", g, i%250)
	denied := false
	if (g+i)%3 == 0 {
		ra = fmt.Sprintf("11.%d.%d.7:5000", g, i%250)
		denied = true
	}
	req = &http.Request{Host: "acl.test", URL: &url.URL{Path: "/"}, Header: http.Header{}, RemoteAddr: ra}
	done = mark(3, g, i)
	var got bool
	pm = safely(func() {
		x = t.Lookup(req, "", route.Picker["rr"], route.Matcher["prefix"], gc, false)
		if x != nil {
			got = x.AccessDeniedHTTP(req)
		}
	})
	done()
	if pm != "" {
		c.R.Violate("c06:lookup-panic", "lookup on an access-rule route panicked: "+pm, nil)
		failed.Store(true)
		return
	}
	c.R.Eval(1)
	if x == nil || got != denied {
		c.R.Violate("c06:access-decision", fmt.Sprintf("peer %s on acl.test: denied=%v want %v", ra, got, denied), nil)
		failed.Store(true)
	}
}

func c06ViaProxy(c *ctx, hp, hpg *proxy.HTTPProxy, g, i int, failed *atomic.Bool, mark func(int, int, int) func()) {
	do := func(kind int, host, path, query, remote string) *httptest.ResponseRecorder {
		hp := hp
		if kind == 2 {
			hp = hpg
		}
		u := "http://" + host + path
		if query != "" {
			u += "?" + query
		}
		req := httptest.NewRequest("GET", u, nil)
		req.RemoteAddr = remote
		rec := httptest.NewRecorder()
		done := mark(kind, g, i)
		if p := safely(func() { hp.ServeHTTP(rec, req) }); p != "" {
			c.R.Violate("c06:servehttp-panic", p, nil)
			failed.Store(true)
		}
		done()
		c.R.Eval(1)
		return rec
	}
	remote := fmt.Sprintf("10.%d.%d.9:4000", g, i%250)
	switch i % 6 {
	case 0:
		p := fmt.Sprintf("/p/g%d/i%d", g, i)
		rec := do(1, "redir.test", p, fmt.Sprintf("x=%d-%d", g, i), remote)
		if rec.Code != 301 || rec.Header().Get("Location") != "http://new.test"+p+fmt.Sprintf("?x=%d-%d", g, i) {
			c.R.Violate("c06:redirect-crossed", fmt.Sprintf("proxy: %s got %d Location %q", p, rec.Code, rec.Header().Get("Location")), nil)
		}
	case 1:
		p := fmt.Sprintf("/h/g%d/i%d", g, i)
		host := fmt.Sprintf("redirh.test")
		rec := do(1, host, p, "", remote)
		if rec.Code != 302 || rec.Header().Get("Location") != "https://redirh.test/moved"+p {
			c.R.Violate("c06:redirect-crossed", fmt.Sprintf("proxy: $host form %s got %d Location %q", p, rec.Code, rec.Header().Get("Location")), nil)
		}
	case 2:
		p := fmt.Sprintf("/q/g%d/i%d", g, i)
		rec := do(1, "redirq.test", p, "", remote)
		if want := "http://new.test/base" + strings.TrimPrefix(p, "/q"); rec.Code != 307 || rec.Header().Get("Location") != want {
			c.R.Violate("c06:redirect-crossed", fmt.Sprintf("proxy: strip form %s got %d Location %q want %q", p, rec.Code, rec.Header().Get("Location"), want), nil)
		}
	case 3:
		gi := (g*131 + i*17) % c06Globs
		rec := do(2, fmt.Sprintf("y%d-%d.g%d.test", g, i, gi), fmt.Sprintf("/g%d/i%d", g, i), "", remote)
		want := fmt.Sprintf("upstream=10.7.%d.%d:80 path=/g%d/i%d", gi/256, gi%256, g, i)
		if rec.Code != 200 || rec.Body.String() != want {
			c.R.Violate("c06:glob-lookup-wrong", fmt.Sprintf("proxy: glob host got %d %q want %q", rec.Code, rec.Body.String(), want), nil)
		}
	case 4:
		denied := (g+i)%5 < 2
		ra := remote
		if denied {
			ra = fmt.Sprintf("12.%d.%d.9:4000", g, i%250)
		}
		rec := do(3, "acl.test", "/", "", ra)
		if (denied && rec.Code != 403) || (!denied && (rec.Code != 200 || !strings.HasPrefix(rec.Body.String(), "upstream=10.8.0.1:80"))) {
			c.R.Violate("c06:access-decision", fmt.Sprintf("proxy: peer %s got %d %q (denied want %v)", ra, rec.Code, rec.Body.String(), denied), nil)
		}
	case 5:
		k := (g + i) % len(c06Weights)
		rec := do(0, fmt.Sprintf("w%d.test", k), fmt.Sprintf("/g%d/i%d", g, i), "", remote)
		if rec.Code != 200 || !strings.HasPrefix(rec.Body.String(), fmt.Sprintf("upstream=10.6.%d.", k)) || !strings.HasSuffix(rec.Body.String(), fmt.Sprintf("path=/g%d/i%d", g, i)) {
			c.R.Violate("c06:weighted-wrong-target", fmt.Sprintf("proxy: w%d.test got %d %q", k, rec.Code, rec.Body.String()), nil)
		}
	}
}

// c06FetchInc: short histories of lookups on a route whose ring has 64 distinct
// slots, checked as a fetch-and-increment counter (also catches real-time order violations).
func c06FetchInc(c *ctx) {
	nh := c.scale(c.pick(400, 8000))
	// ring lengths: 64 (a history of 48 picks never wraps: outputs are unique) and short rings that wrap many times
	ringLens := []int{64, 3, 2, 5, 7}
	scripts := map[int]string{}
	for _, L := range ringLens {
		var b strings.Builder
		for i := 0; i < L; i++ {
			fmt.Fprintf(&b, "route add s fi.test/ http://10.5.0.%d:80/\n", i)
		}
		scripts[L] = b.String()
	}
	L := 64
	model := porcupine.Model{
		Init: func() any { return 0 },
		Step: func(st, in, out any) (bool, any) {
			return out.(int) == st.(int)%in.(int), st.(int) + 1
		},
		DescribeOperation: func(in, out any) string { return fmt.Sprintf("pick()->slot %d", out.(int)) },
	}
	pick := route.Picker["rr"]
	start := time.Now()
	var okH, bad, unk int64
	for h := 0; h < nh; h++ {
		L = ringLens[h%len(ringLens)]
		t, err := newTable(scripts[L])
		if err != nil {
			c.R.Inconcl("fetchinc table: %v", err)
			return
		}
		if n := len(t["fi.test"][0].VerifRing()); n != L {
			c.R.Inconcl("fetchinc: ring of %d equal targets has %d slots", L, n)
			return
		}
		c.R.Count(fmt.Sprintf("fetchinc_histories_ring%d", L), 1)
		idx := map[string]int{}
		for i, x := range t["fi.test"][0].VerifRing() {
			idx[x.URL.Host] = i
		}
		var mu sync.Mutex
		var ops []porcupine.Operation
		var wg sync.WaitGroup
		for g := 0; g < 8; g++ {
			wg.Add(1)
			go func(g int) {
				defer wg.Done()
				for i := 0; i < 6; i++ {
					t0 := int64(time.Since(start))
					x := t.LookupHost("fi.test", pick)
					t1 := int64(time.Since(start))
					mu.Lock()
					ops = append(ops, porcupine.Operation{ClientId: g, Input: L, Call: t0, Output: idx[x.URL.Host], Return: t1})
					mu.Unlock()
				}
			}(g)
		}
		wg.Wait()
		c.R.Eval(int64(len(ops)))
		switch res, _ := porcupine.CheckOperationsVerbose(model, ops, 30*time.Second); res {
		case porcupine.Ok:
			okH++
		case porcupine.Illegal:
			bad++
			var d strings.Builder
			for _, o := range ops {
				fmt.Fprintf(&d, "[c%d slot%d @%d-%d] ", o.ClientId, o.Output.(int), o.Call, o.Return)
			}
			c.R.Violate("c06:rr-not-fetch-and-increment", "round-robin history is not a linearizable fetch-and-increment: "+d.String(), nil)
		default:
			unk++
		}
	}
	c.R.SetCounter("fetchinc_histories_ok", okH)
	c.R.SetCounter("fetchinc_histories_illegal", bad)
	c.R.SetCounter("fetchinc_histories_unknown", unk)
	if unk > 0 {
		c.R.Inconcl("%d fetch-and-increment histories: porcupine timed out", unk)
	}
}
