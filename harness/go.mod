module verif/harness

go 1.24.0

require (
	github.com/anishathalye/porcupine v1.3.0
	github.com/fabiolb/fabio v0.0.0
)

require (
	github.com/GehirnInc/crypt v0.0.0-20230320061759-8cc1b52080c5 // indirect
	github.com/VividCortex/gohistogram v1.0.0 // indirect
	github.com/beorn7/perks v1.0.1 // indirect
	github.com/cespare/xxhash/v2 v2.3.0 // indirect
	github.com/circonus-labs/circonus-gometrics/v3 v3.4.7 // indirect
	github.com/circonus-labs/go-apiclient v0.7.24 // indirect
	github.com/go-kit/kit v0.13.0 // indirect
	github.com/go-kit/log v0.2.1 // indirect
	github.com/go-logfmt/logfmt v0.6.0 // indirect
	github.com/gobwas/glob v0.2.3 // indirect
	github.com/hashicorp/errwrap v1.1.0 // indirect
	github.com/hashicorp/go-cleanhttp v0.5.2 // indirect
	github.com/hashicorp/go-retryablehttp v0.7.7 // indirect
	github.com/hashicorp/go-sockaddr v1.0.7 // indirect
	github.com/magiconair/properties v1.8.9 // indirect
	github.com/munnerz/goautoneg v0.0.0-20191010083416-a7dc8b61c822 // indirect
	github.com/openhistogram/circonusllhist v0.4.1 // indirect
	github.com/pkg/errors v0.9.1 // indirect
	github.com/prometheus/client_golang v1.21.0 // indirect
	github.com/prometheus/client_model v0.6.1 // indirect
	github.com/prometheus/common v0.62.0 // indirect
	github.com/prometheus/procfs v0.15.1 // indirect
	github.com/tg123/go-htpasswd v1.2.3 // indirect
	github.com/tv42/httpunix v0.0.0-20191220191345-2ba4b9c3382c // indirect
	golang.org/x/crypto v0.35.0 // indirect
	golang.org/x/sys v0.30.0 // indirect
	google.golang.org/protobuf v1.36.5 // indirect
)

replace github.com/fabiolb/fabio => /repo
