module verif/harness

go 1.24.0

require (
	github.com/armon/go-proxyproto v0.0.0-20180202201750-5b7edb60ff5f
	github.com/circonus-labs/circonus-gometrics/v3 v3.4.7
	github.com/go-kit/kit v0.13.0
	github.com/go-kit/log v0.2.1
	github.com/gobwas/glob v0.2.3
	github.com/hashicorp/consul/api v1.31.2
	github.com/hashicorp/go-sockaddr v1.0.7
	github.com/hashicorp/vault/api v1.16.0
	github.com/hashicorp/vault/sdk v0.15.0
	github.com/inetaf/tcpproxy v0.0.0-20200125044825-b6bb9b5b8252
	github.com/magiconair/properties v1.8.9
	github.com/mwitkow/grpc-proxy v0.0.0-20230212185441-f345521cb9c9
	github.com/opentracing/opentracing-go v1.2.0
	github.com/openzipkin-contrib/zipkin-go-opentracing v0.3.5
	github.com/osrg/gobgp/v3 v3.34.0
	github.com/pascaldekloe/goe v0.1.1
	github.com/pkg/profile v1.7.0
	github.com/prometheus/client_golang v1.21.0
	github.com/rogpeppe/fastuuid v1.2.0
	github.com/sergi/go-diff v1.3.1
	github.com/tg123/go-htpasswd v1.2.3
	golang.org/x/net v0.36.0
	golang.org/x/sync v0.11.0
	google.golang.org/grpc v1.70.0
	google.golang.org/protobuf v1.36.5
)

require (
	github.com/GehirnInc/crypt v0.0.0-20230320061759-8cc1b52080c5 // indirect
	github.com/Shopify/sarama v1.38.1 // indirect
	github.com/VividCortex/gohistogram v1.0.0 // indirect
	github.com/apache/thrift v0.13.0 // indirect
	github.com/armon/go-metrics v0.4.1 // indirect
	github.com/beorn7/perks v1.0.1 // indirect
	github.com/cenkalti/backoff/v4 v4.3.0 // indirect
	github.com/cespare/xxhash/v2 v2.3.0 // indirect
	github.com/circonus-labs/go-apiclient v0.7.24 // indirect
	github.com/davecgh/go-spew v1.1.2-0.20180830191138-d8f796af33cc // indirect
	github.com/dgryski/go-farm v0.0.0-20240924180020-3414d57e47da // indirect
	github.com/eapache/channels v1.1.0 // indirect
	github.com/eapache/go-resiliency v1.7.0 // indirect
	github.com/eapache/go-xerial-snappy v0.0.0-20230731223053-c322873962e3 // indirect
	github.com/eapache/queue v1.1.0 // indirect
	github.com/fatih/color v1.18.0 // indirect
	github.com/felixge/fgprof v0.9.5 // indirect
	github.com/fsnotify/fsnotify v1.8.0 // indirect
	github.com/go-jose/go-jose/v4 v4.0.5 // indirect
	github.com/go-logfmt/logfmt v0.6.0 // indirect
	github.com/gogo/protobuf v1.3.2 // indirect
	github.com/golang/snappy v0.0.4 // indirect
	github.com/google/pprof v0.0.0-20250208200701-d0013a598941 // indirect
	github.com/google/uuid v1.6.0 // indirect
	github.com/hashicorp/errwrap v1.1.0 // indirect
	github.com/hashicorp/go-cleanhttp v0.5.2 // indirect
	github.com/hashicorp/go-hclog v1.6.3 // indirect
	github.com/hashicorp/go-immutable-radix v1.3.1 // indirect
	github.com/hashicorp/go-metrics v0.5.4 // indirect
	github.com/hashicorp/go-multierror v1.1.1 // indirect
	github.com/hashicorp/go-retryablehttp v0.7.7 // indirect
	github.com/hashicorp/go-rootcerts v1.0.2 // indirect
	github.com/hashicorp/go-secure-stdlib/parseutil v0.1.9 // indirect
	github.com/hashicorp/go-secure-stdlib/strutil v0.1.2 // indirect
	github.com/hashicorp/go-uuid v1.0.3 // indirect
	github.com/hashicorp/golang-lru v1.0.2 // indirect
	github.com/hashicorp/hcl v1.0.1-vault-7 // indirect
	github.com/hashicorp/serf v0.10.2 // indirect
	github.com/jcmturner/aescts/v2 v2.0.0 // indirect
	github.com/jcmturner/dnsutils/v2 v2.0.0 // indirect
	github.com/jcmturner/gofork v1.7.6 // indirect
	github.com/jcmturner/gokrb5/v8 v8.4.4 // indirect
	github.com/jcmturner/rpc/v2 v2.0.3 // indirect
	github.com/k-sone/critbitgo v1.4.0 // indirect
	github.com/klauspost/compress v1.18.0 // indirect
	github.com/mattn/go-colorable v0.1.14 // indirect
	github.com/mattn/go-isatty v0.0.20 // indirect
	github.com/mitchellh/go-homedir v1.1.0 // indirect
	github.com/mitchellh/mapstructure v1.5.0 // indirect
	github.com/munnerz/goautoneg v0.0.0-20191010083416-a7dc8b61c822 // indirect
	github.com/openhistogram/circonusllhist v0.4.1 // indirect
	github.com/opentracing-contrib/go-observer v0.0.0-20170622124052-a52f23424492 // indirect
	github.com/pelletier/go-toml/v2 v2.2.3 // indirect
	github.com/pierrec/lz4/v4 v4.1.22 // indirect
	github.com/pkg/errors v0.9.1 // indirect
	github.com/prometheus/client_model v0.6.1 // indirect
	github.com/prometheus/common v0.62.0 // indirect
	github.com/prometheus/procfs v0.15.1 // indirect
	github.com/rcrowley/go-metrics v0.0.0-20201227073835-cf1acfcdf475 // indirect
	github.com/ryanuber/go-glob v1.0.0 // indirect
	github.com/sagikazarmark/locafero v0.7.0 // indirect
	github.com/sagikazarmark/slog-shim v0.1.0 // indirect
	github.com/sirupsen/logrus v1.9.3 // indirect
	github.com/sourcegraph/conc v0.3.0 // indirect
	github.com/spf13/afero v1.12.0 // indirect
	github.com/spf13/cast v1.7.1 // indirect
	github.com/spf13/pflag v1.0.6 // indirect
	github.com/spf13/viper v1.19.0 // indirect
	github.com/subosito/gotenv v1.6.0 // indirect
	github.com/tv42/httpunix v0.0.0-20191220191345-2ba4b9c3382c // indirect
	github.com/vishvananda/netlink v1.3.0 // indirect
	github.com/vishvananda/netns v0.0.5 // indirect
	go.uber.org/multierr v1.11.0 // indirect
	golang.org/x/exp v0.0.0-20250218142911-aa4b98e5adaa // indirect
	golang.org/x/sys v0.30.0 // indirect
	golang.org/x/text v0.22.0 // indirect
	golang.org/x/time v0.10.0 // indirect
	google.golang.org/genproto/googleapis/rpc v0.0.0-20250224174004-546df14abb99 // indirect
	gopkg.in/ini.v1 v1.67.0 // indirect
	gopkg.in/yaml.v3 v3.0.1 // indirect
)

require (
	github.com/anishathalye/porcupine v1.3.0
	github.com/fabiolb/fabio v0.0.0
	golang.org/x/crypto v0.35.0
)

replace github.com/fabiolb/fabio => /repo
