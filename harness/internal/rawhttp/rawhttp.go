// Package rawhttp has a socket-level recording HTTP/1.1 upstream and a raw
// client: both sides see exactly the bytes that were on the wire, so request
// lines, percent-encoding, header casing/duplicates and framing are observable.
package rawhttp

import (
	"bufio"
	"bytes"
	"crypto/sha256"
	"crypto/tls"
	"fmt"
	"io"
	"net"
	"strconv"
	"strings"
	"sync"
	"sync/atomic"
	"time"
)

type Header struct{ Name, Value string }

// Request as seen on the wire by the upstream.
type Request struct {
	Method, Target, Proto string
	Headers               []Header
	Body                  []byte
	BodySHA               [32]byte
	Chunked               bool
	Trailers              []Header // trailer fields after the last chunk
	ConnID                int64
	RemoteAddr            string
	At                    time.Time
}

func (r *Request) Get(name string) []string {
	var out []string
	for _, h := range r.Headers {
		if strings.EqualFold(h.Name, name) {
			out = append(out, h.Value)
		}
	}
	return out
}

// Script tells the upstream how to answer.
type Script struct {
	Status    int
	Headers   []Header
	Body      []byte
	Framing   string // "length" | "chunked" | "close"
	ChunkSz   int
	Trailers  []Header
	Delay     time.Duration // before the status line
	Info      []int         // informational responses (e.g. 103) sent before the final status
	InfoHdrs  []Header      // extra headers carried by every informational response
	Gate      chan struct{} // when set: wait until it is closed before answering (or before the rest of the body, see GateAfter)
	GateAfter int           // chunked framing: bytes of the body to send before waiting on Gate (0 = wait before the status line)
	Upgrade   bool          // answer 101 and then echo until the peer closes
	NoBody    bool          // HEAD / 204 / 304
}

type Upstream struct {
	ln      net.Listener
	mu      sync.Mutex
	reqs    map[string]*Request // by X-Verif-Id
	scripts sync.Map            // id -> *Script
	Hits    atomic.Int64
	Conns   atomic.Int64
	open    sync.Map
	Default Script
}

func NewUpstream(addr string) (*Upstream, error) {
	ln, err := net.Listen("tcp", addr)
	if err != nil {
		return nil, err
	}
	u := &Upstream{ln: ln, reqs: map[string]*Request{}, Default: Script{Status: 200, Framing: "length", Body: []byte("default")}}
	go u.serve()
	return u, nil
}

// NewUpstreamTLS is NewUpstream behind a TLS listener.
func NewUpstreamTLS(addr string, cfg *tls.Config) (*Upstream, error) {
	ln, err := net.Listen("tcp", addr)
	if err != nil {
		return nil, err
	}
	u := &Upstream{ln: tls.NewListener(ln, cfg), reqs: map[string]*Request{}, Default: Script{Status: 200, Framing: "length", Body: []byte("default")}}
	go u.serve()
	return u, nil
}

// OpenConns is the number of connections currently open at the upstream.
func (u *Upstream) OpenConns() int {
	n := 0
	u.open.Range(func(_, _ any) bool { n++; return true })
	return n
}

func (u *Upstream) Addr() string { return u.ln.Addr().String() }
func (u *Upstream) Port() int {
	_, p, _ := net.SplitHostPort(u.ln.Addr().String())
	n, _ := strconv.Atoi(p)
	return n
}
func (u *Upstream) Close() {
	u.ln.Close()
	u.open.Range(func(k, _ any) bool { k.(net.Conn).Close(); return true })
}

func (u *Upstream) SetScript(id string, s *Script) { u.scripts.Store(id, s) }

// Seen reports whether a request with the given id has arrived (nothing is forgotten).
func (u *Upstream) Seen(id string) bool {
	u.mu.Lock()
	defer u.mu.Unlock()
	return u.reqs[id] != nil
}

// Take returns and forgets the recorded request with the given id.
func (u *Upstream) Take(id string) *Request {
	u.mu.Lock()
	defer u.mu.Unlock()
	r := u.reqs[id]
	delete(u.reqs, id)
	u.scripts.Delete(id)
	return r
}

func (u *Upstream) serve() {
	for {
		c, err := u.ln.Accept()
		if err != nil {
			return
		}
		id := u.Conns.Add(1)
		u.open.Store(c, true)
		go func() {
			defer func() { c.Close(); u.open.Delete(c) }()
			u.handle(c, id)
		}()
	}
}

func readHead(br *bufio.Reader) (first string, hdrs []Header, err error) {
	line, err := br.ReadString('\n')
	if err != nil {
		return "", nil, err
	}
	first = strings.TrimRight(line, "\r\n")
	for {
		l, err := br.ReadString('\n')
		if err != nil {
			return "", nil, err
		}
		l = strings.TrimRight(l, "\r\n")
		if l == "" {
			return first, hdrs, nil
		}
		i := strings.Index(l, ":")
		if i < 0 {
			hdrs = append(hdrs, Header{l, ""})
			continue
		}
		hdrs = append(hdrs, Header{l[:i], strings.TrimSpace(l[i+1:])})
	}
}

func get(hdrs []Header, name string) string {
	for _, h := range hdrs {
		if strings.EqualFold(h.Name, name) {
			return h.Value
		}
	}
	return ""
}

func readChunked(br *bufio.Reader) ([]byte, []Header, error) {
	var body bytes.Buffer
	for {
		l, err := br.ReadString('\n')
		if err != nil {
			return nil, nil, err
		}
		l = strings.TrimSpace(l)
		if i := strings.Index(l, ";"); i >= 0 {
			l = l[:i]
		}
		n, err := strconv.ParseInt(l, 16, 64)
		if err != nil {
			return nil, nil, fmt.Errorf("bad chunk size %q", l)
		}
		if n == 0 {
			var tr []Header
			for {
				t, err := br.ReadString('\n')
				if err != nil {
					return nil, nil, err
				}
				t = strings.TrimRight(t, "\r\n")
				if t == "" {
					return body.Bytes(), tr, nil
				}
				if i := strings.Index(t, ":"); i > 0 {
					tr = append(tr, Header{t[:i], strings.TrimSpace(t[i+1:])})
				}
			}
		}
		if _, err := io.CopyN(&body, br, n); err != nil {
			return nil, nil, err
		}
		br.ReadString('\n')
	}
}

func (u *Upstream) handle(c net.Conn, connID int64) {
	br := bufio.NewReaderSize(c, 64<<10)
	for {
		first, hdrs, err := readHead(br)
		if err != nil {
			return
		}
		p := strings.SplitN(first, " ", 3)
		if len(p) != 3 {
			return
		}
		req := &Request{Method: p[0], Target: p[1], Proto: p[2], Headers: hdrs, ConnID: connID, RemoteAddr: c.RemoteAddr().String(), At: time.Now()}
		if strings.Contains(strings.ToLower(get(hdrs, "Transfer-Encoding")), "chunked") {
			req.Chunked = true
			req.Body, req.Trailers, err = readChunked(br)
			if err != nil {
				return
			}
		} else if cl := get(hdrs, "Content-Length"); cl != "" {
			n, _ := strconv.Atoi(cl)
			req.Body = make([]byte, n)
			if _, err := io.ReadFull(br, req.Body); err != nil {
				return
			}
		}
		req.BodySHA = sha256.Sum256(req.Body)
		u.Hits.Add(1)
		id := get(hdrs, "X-Verif-Id")
		sc := &u.Default
		if v, ok := u.scripts.Load(id); ok {
			sc = v.(*Script)
		}
		u.mu.Lock()
		u.reqs[id] = req
		u.mu.Unlock()
		if sc.Delay > 0 {
			time.Sleep(sc.Delay)
		}
		if sc.Gate != nil && sc.GateAfter > 0 && sc.Framing == "chunked" {
			// a download in progress: first part now, the rest after the gate opens
			var hb bytes.Buffer
			fmt.Fprintf(&hb, "HTTP/1.1 %d Status\r\n", sc.Status)
			for _, h := range sc.Headers {
				fmt.Fprintf(&hb, "%s: %s\r\n", h.Name, h.Value)
			}
			hb.WriteString("Transfer-Encoding: chunked\r\n\r\n")
			fmt.Fprintf(&hb, "%x\r\n", sc.GateAfter)
			hb.Write(sc.Body[:sc.GateAfter])
			hb.WriteString("\r\n")
			if _, err := c.Write(hb.Bytes()); err != nil {
				return
			}
			<-sc.Gate
			var tb bytes.Buffer
			fmt.Fprintf(&tb, "%x\r\n", len(sc.Body)-sc.GateAfter)
			tb.Write(sc.Body[sc.GateAfter:])
			tb.WriteString("\r\n0\r\n\r\n")
			if _, err := c.Write(tb.Bytes()); err != nil {
				return
			}
			continue
		}
		if sc.Gate != nil {
			<-sc.Gate
		}
		if sc.Upgrade {
			fmt.Fprintf(c, "HTTP/1.1 101 Switching Protocols\r\nUpgrade: websocket\r\nConnection: Upgrade\r\n\r\n")
			io.Copy(c, br) // echo
			return
		}
		var b bytes.Buffer
		for _, code := range sc.Info {
			fmt.Fprintf(&b, "HTTP/1.1 %d Info\r\nLink: </style.css>; rel=preload\r\n", code)
			for _, h := range sc.InfoHdrs {
				fmt.Fprintf(&b, "%s: %s\r\n", h.Name, h.Value)
			}
			b.WriteString("\r\n")
		}
		fmt.Fprintf(&b, "HTTP/1.1 %d Status\r\n", sc.Status)
		for _, h := range sc.Headers {
			fmt.Fprintf(&b, "%s: %s\r\n", h.Name, h.Value)
		}
		closeAfter := false
		nobody := sc.NoBody || req.Method == "HEAD"
		switch {
		case nobody:
			if sc.Framing == "length" {
				fmt.Fprintf(&b, "Content-Length: %d\r\n", len(sc.Body))
			}
			b.WriteString("\r\n")
		case sc.Framing == "chunked":
			if len(sc.Trailers) > 0 {
				var names []string
				for _, t := range sc.Trailers {
					names = append(names, t.Name)
				}
				fmt.Fprintf(&b, "Trailer: %s\r\n", strings.Join(names, ", "))
			}
			b.WriteString("Transfer-Encoding: chunked\r\n\r\n")
			sz := sc.ChunkSz
			if sz <= 0 {
				sz = 4096
			}
			for off := 0; off < len(sc.Body); off += sz {
				e := off + sz
				if e > len(sc.Body) {
					e = len(sc.Body)
				}
				fmt.Fprintf(&b, "%x\r\n", e-off)
				b.Write(sc.Body[off:e])
				b.WriteString("\r\n")
			}
			b.WriteString("0\r\n")
			for _, t := range sc.Trailers {
				fmt.Fprintf(&b, "%s: %s\r\n", t.Name, t.Value)
			}
			b.WriteString("\r\n")
		case sc.Framing == "close":
			b.WriteString("Connection: close\r\n\r\n")
			b.Write(sc.Body)
			closeAfter = true
		default:
			fmt.Fprintf(&b, "Content-Length: %d\r\n\r\n", len(sc.Body))
			b.Write(sc.Body)
		}
		if _, err := c.Write(b.Bytes()); err != nil || closeAfter {
			return
		}
	}
}

// ---------- raw client ----------

type Response struct {
	Status   int
	Headers  []Header
	Body     []byte
	Trailers []Header
	Err      error
	Elapsed  time.Duration
}

func (r *Response) Get(name string) []string {
	var out []string
	for _, h := range r.Headers {
		if strings.EqualFold(h.Name, name) {
			out = append(out, h.Value)
		}
	}
	return out
}

type Dial struct {
	Addr    string // proxy address
	Local   string // local IP to bind ("" = any)
	TLS     bool
	SNI     string
	Timeout time.Duration
}

func (d Dial) Conn() (net.Conn, error) {
	dl := &net.Dialer{Timeout: 10 * time.Second}
	if d.Local != "" {
		dl.LocalAddr = &net.TCPAddr{IP: net.ParseIP(d.Local)}
	}
	c, err := dl.Dial("tcp", d.Addr)
	if err != nil {
		return nil, err
	}
	if d.TLS {
		tc := tls.Client(c, &tls.Config{InsecureSkipVerify: true, ServerName: d.SNI, NextProtos: []string{"http/1.1"}})
		if err := tc.Handshake(); err != nil {
			c.Close()
			return nil, err
		}
		return tc, nil
	}
	return c, nil
}

// Do writes raw request bytes on a fresh connection and parses the response.
func Do(d Dial, raw []byte, method string) *Response {
	t0 := time.Now()
	out := &Response{}
	c, err := d.Conn()
	if err != nil {
		out.Err = err
		return out
	}
	defer c.Close()
	to := d.Timeout
	if to == 0 {
		to = 30 * time.Second
	}
	c.SetDeadline(time.Now().Add(to))
	// a server may answer (and close) before it has read the whole body: keep going and try to read the answer
	_, werr := c.Write(raw)
	br := bufio.NewReaderSize(c, 64<<10)
	for {
		first, hdrs, err := readHead(br)
		if err != nil {
			out.Err = fmt.Errorf("reading response head: %v (write error: %v)", err, werr)
			return out
		}
		p := strings.SplitN(first, " ", 3)
		if len(p) < 2 {
			out.Err = fmt.Errorf("bad status line %q", first)
			return out
		}
		out.Status, _ = strconv.Atoi(p[1])
		out.Headers = hdrs
		if out.Status >= 100 && out.Status < 200 && out.Status != 101 {
			continue
		}
		break
	}
	switch {
	case method == "HEAD" || out.Status == 204 || out.Status == 304 || out.Status == 101:
	case strings.Contains(strings.ToLower(get(out.Headers, "Transfer-Encoding")), "chunked"):
		out.Body, out.Trailers, out.Err = readChunked(br)
	case get(out.Headers, "Content-Length") != "":
		n, _ := strconv.Atoi(get(out.Headers, "Content-Length"))
		out.Body = make([]byte, n)
		_, out.Err = io.ReadFull(br, out.Body)
	default:
		out.Body, out.Err = io.ReadAll(br)
	}
	out.Elapsed = time.Since(t0)
	return out
}
