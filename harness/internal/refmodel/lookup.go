package refmodel

import "strings"

// WildMatch matches s against a pattern in which '*' stands for any (possibly
// empty) sequence of characters and every other character is literal.
func WildMatch(pat, s string) bool {
	// iterative two-pointer algorithm with backtracking to the last star
	p, i, star, mark := 0, 0, -1, 0
	for i < len(s) {
		switch {
		case p < len(pat) && pat[p] == '*':
			star, mark = p, i
			p++
		case p < len(pat) && pat[p] == s[i]:
			p++
			i++
		case star >= 0:
			p = star + 1
			mark++
			i = mark
		default:
			return false
		}
	}
	for p < len(pat) && pat[p] == '*' {
		p++
	}
	return p == len(pat)
}

// GlobMatch matches s against a pattern in the subset of the glob language the
// generators use: '*' any sequence, '?' any single character, '[abc]' / '[a-c]' one
// character of a class, '{x,y}' one of several literal alternatives. ok is false
// when the pattern is not well formed (unbalanced bracket or brace): such a
// pattern matches nothing.
func GlobMatch(pat, s string) (match, ok bool) {
	if !globWellFormed(pat) {
		return false, false
	}
	return globRec(pat, s), true
}

func globWellFormed(pat string) bool {
	for i := 0; i < len(pat); i++ {
		switch pat[i] {
		case '[':
			j := strings.IndexByte(pat[i:], ']')
			if j < 2 {
				return false
			}
			i += j
		case '{':
			j := strings.IndexByte(pat[i:], '}')
			if j < 0 || strings.ContainsAny(pat[i+1:i+j], "{[*?") {
				return false
			}
			i += j
		case ']', '}':
			return false
		}
	}
	return true
}

func globRec(pat, s string) bool {
	if pat == "" {
		return s == ""
	}
	switch pat[0] {
	case '*':
		for k := 0; k <= len(s); k++ {
			if globRec(pat[1:], s[k:]) {
				return true
			}
		}
		return false
	case '?':
		return s != "" && globRec(pat[1:], s[1:])
	case '[':
		j := strings.IndexByte(pat, ']')
		if s == "" {
			return false
		}
		cls, in := pat[1:j], false
		for k := 0; k < len(cls); k++ {
			if k+2 < len(cls) && cls[k+1] == '-' {
				in = in || (cls[k] <= s[0] && s[0] <= cls[k+2])
				k += 2
			} else {
				in = in || cls[k] == s[0]
			}
		}
		return in && globRec(pat[j+1:], s[1:])
	case '{':
		j := strings.IndexByte(pat, '}')
		for _, alt := range strings.Split(pat[1:j], ",") {
			if strings.HasPrefix(s, alt) && globRec(pat[j+1:], s[len(alt):]) {
				return true
			}
		}
		return false
	}
	return s != "" && s[0] == pat[0] && globRec(pat[1:], s[1:])
}

// NormHost is the request host as routing sees it: lower case, default port removed.
func NormHost(host string, tls bool) string {
	h := strings.ToLower(host)
	if !tls {
		h = strings.TrimSuffix(h, ":80")
	} else {
		h = strings.TrimSuffix(h, ":443")
	}
	return h
}

// LRoute is a route as the lookup reference sees it.
type LRoute struct {
	ID   string // unique per route
	Host string // lower-case pattern, "" for host-less
	Path string
}

type LookupCfg struct {
	Matcher      string // prefix | iprefix | glob
	GlobDisabled bool   // host patterns are literal names
}

func pathMatches(matcher, uri, rpath string) bool {
	switch matcher {
	case "prefix":
		return strings.HasPrefix(uri, rpath)
	case "iprefix":
		return strings.HasPrefix(strings.ToLower(uri), strings.ToLower(rpath))
	case "glob":
		m, _ := GlobMatch(rpath, uri)
		return m
	}
	return false
}

// the route's host pattern is normalised like the request host (a default port is dropped)
func hostMatches(cfg LookupCfg, pattern, normHost string, tls bool) bool {
	if np := NormHost(pattern, tls); np != strings.ToLower(pattern) && hasPort(normHost) {
		// the pattern names the default port ('*:80'): a request for another port ('example.com:3000') is not for it,
		// although the wildcard that is left after dropping ':80' would swallow that port
		return false
	}
	pattern = NormHost(pattern, tls)
	if cfg.GlobDisabled {
		return pattern == normHost
	}
	if pattern == normHost {
		return true // a host names itself even when its text, read as a pattern, does not ('[::1]' is a class)
	}
	m, _ := GlobMatch(pattern, normHost)
	return m
}

// hostRank: exact host > wildcard host ordered by the length of the literal
// suffix after the last '*'; host-less routes come last. Wildcards written with
// '?', classes or alternatives are wildcards too; the statement does not rank them
// against each other, so in their presence all wildcard candidates are tied
// (classTie).
func hostRank(cfg LookupCfg, pattern, normHost string, tls, classTie bool) int {
	if pattern == "" {
		return -1
	}
	pattern = NormHost(pattern, tls)
	if cfg.GlobDisabled || pattern == normHost || !strings.ContainsAny(pattern, "*?[{") {
		return 1 << 20
	}
	if classTie {
		return 0
	}
	return len(pattern) - 1 - strings.LastIndex(pattern, "*")
}

// Candidates returns all routes matching the request, and Winners the subset
// the statement allows as the answer (ties are all allowed).
func Select(cfg LookupCfg, routes []LRoute, host string, tls bool, uri string) (cands, winners []LRoute) {
	nh := NormHost(host, tls)
	for _, r := range routes {
		if r.Host != "" && !hostMatches(cfg, r.Host, nh, tls) {
			continue
		}
		if !pathMatches(cfg.Matcher, uri, r.Path) {
			continue
		}
		cands = append(cands, r)
	}
	if len(cands) == 0 {
		return nil, nil
	}
	classTie := false
	for _, c := range cands {
		classTie = classTie || (!cfg.GlobDisabled && strings.ContainsAny(c.Host, "?[{") && NormHost(c.Host, tls) != nh)
	}
	hostRank := func(cfg LookupCfg, pattern string) int { return hostRank(cfg, pattern, nh, tls, classTie) }
	best := -2
	for _, c := range cands {
		if k := hostRank(cfg, c.Host); k > best {
			best = k
		}
	}
	// among the most specific host rank: per host the longest path; hosts tied on
	// rank, and paths tied on length, are all allowed
	perHost := map[string]int{}
	for _, c := range cands {
		if hostRank(cfg, c.Host) != best {
			continue
		}
		if cur, ok := perHost[c.Host]; !ok || pathLen(cfg.Matcher, c.Path) > cur {
			perHost[c.Host] = pathLen(cfg.Matcher, c.Path)
		}
	}
	for _, c := range cands {
		if w, ok := perHost[c.Host]; ok && hostRank(cfg, c.Host) == best && w == pathLen(cfg.Matcher, c.Path) {
			winners = append(winners, c)
		}
	}
	return cands, winners
}

func pathLen(matcher, p string) int {
	if matcher == "glob" {
		// patterns generated for the oracle are literal prefixes followed by a wildcard part:
		// the longer literal prefix is the more specific one
		if i := strings.IndexAny(p, "*?[{"); i >= 0 {
			return i
		}
		return len(p)
	}
	return len(p)
}

func hasPort(host string) bool {
	i := strings.LastIndexByte(host, ':')
	if i < 0 || strings.HasSuffix(host, "]") {
		return false
	}
	for _, ch := range host[i+1:] {
		if ch < '0' || ch > '9' {
			return false
		}
	}
	return i+1 < len(host)
}
