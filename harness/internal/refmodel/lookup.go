package refmodel

import "strings"

// WildMatch matches s against a pattern in which '*' stands for any (possibly
// empty) sequence of characters and every other character is literal.
func WildMatch(pat, s string) bool {
	// iterative two-pointer algorithm with backtracking to the last star
	p, i, star, mark := 0, 0, -1, 0
	for i < len(s) {
		switch {
		case p < len(pat) && pat[p] == '*':
			star, mark = p, i
			p++
		case p < len(pat) && pat[p] == s[i]:
			p++
			i++
		case star >= 0:
			p = star + 1
			mark++
			i = mark
		default:
			return false
		}
	}
	for p < len(pat) && pat[p] == '*' {
		p++
	}
	return p == len(pat)
}

// NormHost is the request host as routing sees it: lower case, default port removed.
func NormHost(host string, tls bool) string {
	h := strings.ToLower(host)
	if !tls {
		h = strings.TrimSuffix(h, ":80")
	} else {
		h = strings.TrimSuffix(h, ":443")
	}
	return h
}

// LRoute is a route as the lookup reference sees it.
type LRoute struct {
	ID   string // unique per route
	Host string // lower-case pattern, "" for host-less
	Path string
}

type LookupCfg struct {
	Matcher      string // prefix | iprefix | glob
	GlobDisabled bool   // host patterns are literal names
}

func pathMatches(matcher, uri, rpath string) bool {
	switch matcher {
	case "prefix":
		return strings.HasPrefix(uri, rpath)
	case "iprefix":
		return strings.HasPrefix(strings.ToLower(uri), strings.ToLower(rpath))
	case "glob":
		return WildMatch(rpath, uri)
	}
	return false
}

func hostMatches(cfg LookupCfg, pattern, normHost string) bool {
	if cfg.GlobDisabled {
		return pattern == normHost
	}
	return WildMatch(pattern, normHost)
}

// hostRank: exact host > wildcard host ordered by the length of the literal
// suffix after the last '*'; host-less routes come last.
func hostRank(cfg LookupCfg, pattern string) int {
	if pattern == "" {
		return -1
	}
	if cfg.GlobDisabled || !strings.Contains(pattern, "*") {
		return 1 << 20
	}
	return len(pattern) - 1 - strings.LastIndex(pattern, "*")
}

// Candidates returns all routes matching the request, and Winners the subset
// the statement allows as the answer (ties are all allowed).
func Select(cfg LookupCfg, routes []LRoute, host string, tls bool, uri string) (cands, winners []LRoute) {
	nh := NormHost(host, tls)
	for _, r := range routes {
		if r.Host != "" && !hostMatches(cfg, r.Host, nh) {
			continue
		}
		if !pathMatches(cfg.Matcher, uri, r.Path) {
			continue
		}
		cands = append(cands, r)
	}
	if len(cands) == 0 {
		return nil, nil
	}
	best := -2
	for _, c := range cands {
		if k := hostRank(cfg, c.Host); k > best {
			best = k
		}
	}
	// among the most specific host rank: per host the longest path; hosts tied on
	// rank, and paths tied on length, are all allowed
	perHost := map[string]int{}
	for _, c := range cands {
		if hostRank(cfg, c.Host) != best {
			continue
		}
		if cur, ok := perHost[c.Host]; !ok || pathLen(cfg.Matcher, c.Path) > cur {
			perHost[c.Host] = pathLen(cfg.Matcher, c.Path)
		}
	}
	for _, c := range cands {
		if w, ok := perHost[c.Host]; ok && hostRank(cfg, c.Host) == best && w == pathLen(cfg.Matcher, c.Path) {
			winners = append(winners, c)
		}
	}
	return cands, winners
}

func pathLen(matcher, p string) int {
	if matcher == "glob" {
		// patterns generated for the oracle are literal prefixes followed by one '*':
		// the longer literal prefix is the more specific one
		return len(strings.TrimSuffix(p, "*"))
	}
	return len(p)
}
