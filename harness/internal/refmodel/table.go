// Package refmodel holds small independent reference models written from the
// property statements and fabio's documentation (not from its implementation).
package refmodel

import (
	"fmt"
	"net/url"
	"sort"
	"strconv"
	"strings"
)

// Def is one route command in abstract form.
type Def struct {
	Cmd     string // "add", "del", "weight"
	Service string
	Src     string
	Dst     string
	Weight  float64
	Tags    []string
	Opts    map[string]string
	// BlankTags: an add without tags written with a quoted tag list of white space only (tags " "): no tags
	BlankTags string
}

type Target struct {
	Service string
	Dst     string // canonical URL string
	Fixed   float64
	Tags    []string
	Opts    map[string]string
	Weight  float64 // effective, filled by Normalize
}

type Route struct {
	Host, Path string
	Targets    []*Target
}

// Table maps lower-case host -> path -> route.
type Table map[string]map[string]*Route

func splitSrc(src string) (host, path string) {
	if strings.HasPrefix(src, ":") {
		return src, ""
	}
	i := strings.Index(src, "/")
	if i < 0 {
		return src, "/"
	}
	return src[:i], src[i:]
}

func canonURL(s string) string {
	u, err := url.Parse(s)
	if err != nil {
		return s
	}
	return u.String()
}

func sameTags(a, b []string) bool {
	if len(a) != len(b) {
		return false
	}
	for i := range a {
		if a[i] != b[i] {
			return false
		}
	}
	return true
}

func hasAll(have, want []string) bool {
	for _, w := range want {
		ok := false
		for _, h := range have {
			if h == w {
				ok = true
				break
			}
		}
		if !ok {
			return false
		}
	}
	return true
}

// Apply interprets one command by the documented semantics. It returns an
// error text for a weight command that matches nothing (fabio rejects those).
func (t Table) Apply(d Def) error {
	host, path := splitSrc(d.Src)
	host = strings.ToLower(host) // host names are case-insensitive in all commands
	switch d.Cmd {
	case "add":
		w := d.Weight
		if w < 0 {
			w = 0
		}
		if t[host] == nil {
			t[host] = map[string]*Route{}
		}
		r := t[host][path]
		if r == nil {
			r = &Route{Host: host, Path: path}
			t[host][path] = r
		}
		dst := canonURL(d.Dst)
		for _, x := range r.Targets { // add is idempotent
			if x.Service == d.Service && x.Dst == dst && x.Fixed == w && sameTags(x.Tags, d.Tags) {
				return nil
			}
		}
		r.Targets = append(r.Targets, &Target{Service: d.Service, Dst: dst, Fixed: w, Tags: d.Tags, Opts: d.Opts})
	case "del":
		drop := func(r *Route, f func(*Target) bool) {
			var keep []*Target
			for _, x := range r.Targets {
				if !f(x) {
					keep = append(keep, x)
				}
			}
			r.Targets = keep
		}
		switch {
		case len(d.Tags) > 0:
			for _, rs := range t {
				for _, r := range rs {
					drop(r, func(x *Target) bool {
						return (d.Service == "" || x.Service == d.Service) && hasAll(x.Tags, d.Tags)
					})
				}
			}
		case d.Src == "":
			for _, rs := range t {
				for _, r := range rs {
					drop(r, func(x *Target) bool { return x.Service == d.Service })
				}
			}
		case d.Dst == "":
			if r := t[host][path]; r != nil {
				drop(r, func(x *Target) bool { return x.Service == d.Service })
			}
		default:
			dst := canonURL(d.Dst)
			if r := t[host][path]; r != nil {
				drop(r, func(x *Target) bool { return x.Service == d.Service && x.Dst == dst })
			}
		}
		for h, rs := range t {
			for p, r := range rs {
				if len(r.Targets) == 0 {
					delete(rs, p)
				}
			}
			if len(rs) == 0 {
				delete(t, h)
			}
		}
	case "weight":
		// a weight command without a matching target has nothing to do (like del)
		r := t[host][path]
		if r == nil {
			return nil
		}
		var m []*Target
		for _, x := range r.Targets {
			if d.Service != "" && x.Service != d.Service {
				continue
			}
			if len(d.Tags) > 0 && !hasAll(x.Tags, d.Tags) {
				continue
			}
			m = append(m, x)
		}
		if len(m) == 0 {
			return nil
		}
		w := d.Weight
		if w < 0 {
			w = 0 // "w <= 0: no fixed weighting", as for route add
		}
		for _, x := range m { // the share is split over all matching targets
			x.Fixed = w / float64(len(m))
		}
	default:
		return fmt.Errorf("unknown command %q", d.Cmd)
	}
	return nil
}

// WouldMatchWeight tells whether a weight command matches at least one target.
func (t Table) WouldMatchWeight(d Def) bool {
	host, path := splitSrc(d.Src)
	r := t[strings.ToLower(host)][path]
	if r == nil {
		return false
	}
	for _, x := range r.Targets {
		if d.Service != "" && x.Service != d.Service {
			continue
		}
		if len(d.Tags) > 0 && !hasAll(x.Tags, d.Tags) {
			continue
		}
		return true
	}
	return false
}

// Normalize computes the effective weights of every route (C04 statement).
func (t Table) Normalize() {
	for _, rs := range t {
		for _, r := range rs {
			f := make([]float64, len(r.Targets))
			for i, x := range r.Targets {
				f[i] = x.Fixed
			}
			w := Weights(f)
			for i, x := range r.Targets {
				x.Weight = w[i]
			}
		}
	}
}

// Weights is the reference normalisation: fixed weights as given, scaled down
// if they exceed 1, scaled up if every target is fixed and they sum to less;
// the dynamic targets share the remainder equally.
func Weights(fixed []float64) []float64 {
	n := len(fixed)
	out := make([]float64, n)
	nf, sum := 0, 0.0
	for _, f := range fixed {
		if f > 0 {
			nf++
			sum += f
		}
	}
	switch {
	case nf == 0:
		for i := range out {
			out[i] = 1 / float64(n)
		}
	case sum > 1 || nf == n:
		// every unit goes to the fixed targets, proportionally
		for i, f := range fixed {
			if f > 0 {
				out[i] = f / sum
			}
		}
	default:
		// fixed weights that add up to 100% on paper may sum to a hair less than 1: nothing is left then
		rem := 1 - sum
		if rem < 1e-9 {
			rem = 0
		}
		rest := rem / float64(n-nf)
		for i, f := range fixed {
			if f > 0 {
				out[i] = f
			} else {
				out[i] = rest
			}
		}
	}
	return out
}

// Flat is a canonical, order-insensitive projection used for comparison.
type FlatTarget struct {
	Host, Path, Service, Dst string
	Fixed, Weight            float64
	Tags                     []string
	Opts                     map[string]string
}

func (t Table) Flatten() []FlatTarget {
	var out []FlatTarget
	for h, rs := range t {
		for p, r := range rs {
			for _, x := range r.Targets {
				out = append(out, FlatTarget{h, p, x.Service, x.Dst, x.Fixed, x.Weight, x.Tags, x.Opts})
			}
		}
	}
	SortFlat(out)
	return out
}

func flatKey(f FlatTarget) string {
	return fmt.Sprintf("%s\x00%s\x00%s\x00%s\x00%s\x00%.6f", f.Host, f.Path, f.Service, f.Dst, strings.Join(f.Tags, ","), f.Fixed)
}

func SortFlat(fs []FlatTarget) {
	sort.SliceStable(fs, func(i, j int) bool { return flatKey(fs[i]) < flatKey(fs[j]) })
}

// Text renders a Def as a route command line.
func (d Def) Text() string {
	var b strings.Builder
	q := func(s string) string { return `"` + s + `"` }
	switch d.Cmd {
	case "add":
		fmt.Fprintf(&b, "route add %s %s %s", d.Service, d.Src, d.Dst)
		if d.Weight != 0 {
			fmt.Fprintf(&b, " weight %s", fmtFloat(d.Weight))
		}
		if len(d.Tags) > 0 {
			b.WriteString(" tags " + q(strings.Join(d.Tags, ",")))
		} else if d.BlankTags != "" {
			b.WriteString(" tags " + q(d.BlankTags))
		}
		if len(d.Opts) > 0 {
			var ks []string
			for k := range d.Opts {
				ks = append(ks, k)
			}
			sort.Strings(ks)
			var kv []string
			for _, k := range ks {
				if d.Opts[k] == "" {
					kv = append(kv, k)
				} else {
					kv = append(kv, k+"="+d.Opts[k])
				}
			}
			b.WriteString(" opts " + q(strings.Join(kv, " ")))
		}
	case "del":
		b.WriteString("route del")
		if d.Service != "" {
			b.WriteString(" " + d.Service)
		}
		if len(d.Tags) > 0 {
			b.WriteString(" tags " + q(strings.Join(d.Tags, ",")))
		} else {
			if d.Src != "" {
				b.WriteString(" " + d.Src)
			}
			if d.Dst != "" {
				b.WriteString(" " + d.Dst)
			}
		}
	case "weight":
		b.WriteString("route weight")
		if d.Service != "" {
			b.WriteString(" " + d.Service)
		}
		fmt.Fprintf(&b, " %s weight %s", d.Src, fmtFloat(d.Weight))
		if len(d.Tags) > 0 {
			b.WriteString(" tags " + q(strings.Join(d.Tags, ",")))
		}
	}
	return b.String()
}

func fmtFloat(f float64) string {
	return strconv.FormatFloat(f, 'f', -1, 64) // every digit: the command must say what the model holds
}
