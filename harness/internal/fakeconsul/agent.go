// Package fakeconsul is a small fake Consul HTTP agent: agent/self, blocking
// health/state/any, catalog/service/<name> and KV list/get with index based
// blocking queries. It records which blocking queries the client has issued,
// which gives the harness a purely logical barrier (see DESIGN.md 3.2).
package fakeconsul

import (
	"encoding/base64"
	"encoding/json"
	"fmt"
	"net"
	"net/http"
	"sort"
	"strconv"
	"strings"
	"sync"
	"time"
	"unicode"
)

type Check struct {
	CheckID string
	Status  string // passing | warning | critical
}

type Instance struct {
	Node        string
	ID          string
	Name        string
	Address     string
	Port        int
	Tags        []string
	Checks      []Check
	Maintenance bool
}

type Node struct {
	Name        string
	Address     string
	Serf        string // "" = no serfHealth check, else status
	Maintenance bool
}

type Agent struct {
	mu   sync.Mutex
	cond *sync.Cond

	idx       uint64
	healthIdx uint64
	kvIdx     uint64
	nodes     map[string]*Node
	insts     map[string]*Instance // key node/id
	kv        map[string]string

	seenHealth                               uint64            // highest index a health query asked for
	seenKV                                   map[string]uint64 // per prefix
	HealthQueries, CatalogQueries, KVQueries int64

	ln  net.Listener
	srv *http.Server

	// CatalogDelay is slept before answering catalog queries (injected network-side delay).
	CatalogDelay time.Duration
	// FailHealth makes the next n health queries fail with HTTP 500.
	failHealth int
	// failCatalog makes the next n catalog queries fail with HTTP 500.
	failCatalog int
	// DefaultWait is how long a blocking query waits when the client sends no wait parameter (Consul: 5m).
	DefaultWait time.Duration
	// firstHealthDelay delays the answer to the very first health query (so that the KV watcher delivers first).
	firstHealthDelay time.Duration
}

func New() (*Agent, error) {
	a := &Agent{nodes: map[string]*Node{}, insts: map[string]*Instance{}, kv: map[string]string{}, seenKV: map[string]uint64{}, idx: 10, healthIdx: 10, kvIdx: 10}
	a.cond = sync.NewCond(&a.mu)
	ln, err := net.Listen("tcp", "127.0.0.1:0")
	if err != nil {
		return nil, err
	}
	a.ln = ln
	mux := http.NewServeMux()
	mux.HandleFunc("/v1/agent/self", a.self)
	mux.HandleFunc("/v1/health/state/", a.health)
	mux.HandleFunc("/v1/catalog/service/", a.catalog)
	mux.HandleFunc("/v1/kv/", a.kvHandler)
	mux.HandleFunc("/", func(w http.ResponseWriter, r *http.Request) { http.Error(w, "not implemented: "+r.URL.Path, 404) })
	a.srv = &http.Server{Handler: mux}
	go a.srv.Serve(ln)
	// wake blocked queries periodically so that they can notice a closed connection / timeout
	go func() {
		for {
			time.Sleep(200 * time.Millisecond)
			a.mu.Lock()
			a.cond.Broadcast()
			closed := a.srv == nil
			a.mu.Unlock()
			if closed {
				return
			}
		}
	}()
	return a, nil
}

func (a *Agent) Addr() string { return a.ln.Addr().String() }

func (a *Agent) Close() {
	a.mu.Lock()
	srv := a.srv
	a.srv = nil
	a.cond.Broadcast()
	a.mu.Unlock()
	if srv != nil {
		srv.Close()
	}
}

// Update applies a change to the registry under the lock and bumps the health index.
func (a *Agent) Update(f func(nodes map[string]*Node, insts map[string]*Instance)) uint64 {
	a.mu.Lock()
	defer a.mu.Unlock()
	f(a.nodes, a.insts)
	a.idx++
	a.healthIdx = a.idx
	a.cond.Broadcast()
	return a.healthIdx
}

func (a *Agent) PutKV(key, val string) uint64 {
	a.mu.Lock()
	defer a.mu.Unlock()
	a.kv[strings.TrimPrefix(key, "/")] = val
	a.idx++
	a.kvIdx = a.idx
	a.cond.Broadcast()
	return a.kvIdx
}

func (a *Agent) DeleteKV(key string) uint64 {
	a.mu.Lock()
	defer a.mu.Unlock()
	delete(a.kv, strings.TrimPrefix(key, "/"))
	a.idx++
	a.kvIdx = a.idx
	a.cond.Broadcast()
	return a.kvIdx
}

// DelayFirstHealth makes the first health query wait d before it is answered.
func (a *Agent) DelayFirstHealth(d time.Duration) {
	a.mu.Lock()
	a.firstHealthDelay = d
	a.mu.Unlock()
}

// SetDefaultWait sets DefaultWait.
func (a *Agent) SetDefaultWait(d time.Duration) {
	a.mu.Lock()
	a.DefaultWait = d
	a.mu.Unlock()
}

// FailNextCatalog makes the next n catalog queries fail (transient catalog failure).
func (a *Agent) FailNextCatalog(n int) {
	a.mu.Lock()
	a.failCatalog = n
	a.mu.Unlock()
}

func (a *Agent) FailNextHealth(n int) {
	a.mu.Lock()
	a.failHealth = n
	a.mu.Unlock()
}

// WaitHealthQuery blocks until the client has issued a health query with index >= idx.
func (a *Agent) WaitHealthQuery(idx uint64, max time.Duration) bool {
	dl := time.Now().Add(max)
	a.mu.Lock()
	defer a.mu.Unlock()
	for a.seenHealth < idx {
		if time.Now().After(dl) {
			return false
		}
		a.cond.Wait()
	}
	return true
}

// WaitKVQuery blocks until the client has listed prefix with index >= idx.
func (a *Agent) WaitKVQuery(prefix string, idx uint64, max time.Duration) bool {
	prefix = strings.TrimPrefix(prefix, "/")
	dl := time.Now().Add(max)
	a.mu.Lock()
	defer a.mu.Unlock()
	for a.seenKV[prefix] < idx {
		if time.Now().After(dl) {
			return false
		}
		a.cond.Wait()
	}
	return true
}

func (a *Agent) self(w http.ResponseWriter, r *http.Request) {
	json.NewEncoder(w).Encode(map[string]any{"Config": map[string]any{"Datacenter": "dc1", "NodeName": "fake"}, "Member": map[string]any{"Name": "fake"}})
}

func (a *Agent) queryIndex(r *http.Request) (uint64, time.Duration) {
	idx, _ := strconv.ParseUint(r.URL.Query().Get("index"), 10, 64)
	wait := 30 * time.Second
	a.mu.Lock()
	if a.DefaultWait > 0 {
		wait = a.DefaultWait
	}
	a.mu.Unlock()
	if s := r.URL.Query().Get("wait"); s != "" {
		if d, err := time.ParseDuration(s); err == nil && d < wait {
			wait = d
		}
	}
	return idx, wait
}

type hc struct {
	Node, CheckID, Name, Status, Notes, Output, ServiceID, ServiceName string
	ServiceTags                                                        []string
}

func (a *Agent) health(w http.ResponseWriter, r *http.Request) {
	idx, wait := a.queryIndex(r)
	dl := time.Now().Add(wait)
	a.mu.Lock()
	a.HealthQueries++
	if d := a.firstHealthDelay; d > 0 {
		a.firstHealthDelay = 0
		a.mu.Unlock()
		time.Sleep(d)
		a.mu.Lock()
	}
	if a.failHealth > 0 {
		a.failHealth--
		a.mu.Unlock()
		http.Error(w, "injected failure", 500)
		return
	}
	if idx > a.seenHealth {
		a.seenHealth = idx
		a.cond.Broadcast()
	}
	for idx >= a.healthIdx && time.Now().Before(dl) && r.Context().Err() == nil && a.srv != nil {
		a.cond.Wait()
	}
	var out []hc
	var nodes []string
	for n := range a.nodes {
		nodes = append(nodes, n)
	}
	sort.Strings(nodes)
	for _, n := range nodes {
		nd := a.nodes[n]
		if nd.Serf != "" {
			out = append(out, hc{Node: n, CheckID: "serfHealth", Name: "Serf Health Status", Status: nd.Serf})
		}
		if nd.Maintenance {
			out = append(out, hc{Node: n, CheckID: "_node_maintenance", Name: "Node Maintenance Mode", Status: "critical"})
		}
	}
	var keys []string
	for k := range a.insts {
		keys = append(keys, k)
	}
	sort.Strings(keys)
	for _, k := range keys {
		in := a.insts[k]
		for _, c := range in.Checks {
			out = append(out, hc{Node: in.Node, CheckID: c.CheckID, Name: c.CheckID, Status: c.Status, ServiceID: in.ID, ServiceName: in.Name, ServiceTags: in.Tags})
		}
		if in.Maintenance {
			out = append(out, hc{Node: in.Node, CheckID: "_service_maintenance:" + in.ID, Name: "Service Maintenance Mode", Status: "critical", ServiceID: in.ID, ServiceName: in.Name, ServiceTags: in.Tags})
		}
	}
	cur := a.healthIdx
	a.mu.Unlock()
	if out == nil {
		out = []hc{}
	}
	w.Header().Set("X-Consul-Index", strconv.FormatUint(cur, 10))
	w.Header().Set("Content-Type", "application/json")
	json.NewEncoder(w).Encode(out)
}

type catalogService struct {
	ID, Node, Address, Datacenter string
	ServiceID, ServiceName        string
	ServiceAddress                string
	ServiceTags                   []string
	ServicePort                   int
}

func (a *Agent) catalog(w http.ResponseWriter, r *http.Request) {
	name := strings.TrimPrefix(r.URL.Path, "/v1/catalog/service/")
	// like the real agent (since 1.0.3) requests whose path holds a non-printable character are refused, for as long as
	// such a service is registered (registration goes through a JSON body and is accepted)
	for _, ch := range r.URL.Path {
		if !unicode.IsPrint(ch) {
			http.Error(w, "Request contains invalid characters", 400)
			return
		}
	}
	a.mu.Lock()
	a.CatalogQueries++
	if a.failCatalog > 0 {
		a.failCatalog--
		a.mu.Unlock()
		http.Error(w, "injected catalog failure", 500)
		return
	}
	d := a.CatalogDelay
	var out []catalogService
	var keys []string
	for k := range a.insts {
		keys = append(keys, k)
	}
	sort.Strings(keys)
	for _, k := range keys {
		in := a.insts[k]
		if in.Name != name {
			continue
		}
		addr := ""
		if nd := a.nodes[in.Node]; nd != nil {
			addr = nd.Address
		}
		out = append(out, catalogService{Node: in.Node, Address: addr, Datacenter: "dc1", ServiceID: in.ID, ServiceName: in.Name, ServiceAddress: in.Address, ServiceTags: in.Tags, ServicePort: in.Port})
	}
	cur := a.healthIdx
	a.mu.Unlock()
	if d > 0 {
		time.Sleep(d)
	}
	if out == nil {
		out = []catalogService{}
	}
	w.Header().Set("X-Consul-Index", strconv.FormatUint(cur, 10))
	w.Header().Set("Content-Type", "application/json")
	json.NewEncoder(w).Encode(out)
}

type kvPair struct {
	Key                                 string
	CreateIndex, ModifyIndex, LockIndex uint64
	Flags                               uint64
	Value                               string
}

func (a *Agent) kvHandler(w http.ResponseWriter, r *http.Request) {
	key := strings.TrimPrefix(r.URL.Path, "/v1/kv/")
	if r.Method != "GET" {
		http.Error(w, "read only", 405)
		return
	}
	_, recurse := r.URL.Query()["recurse"]
	idx, wait := a.queryIndex(r)
	dl := time.Now().Add(wait)
	a.mu.Lock()
	a.KVQueries++
	if idx > a.seenKV[key] {
		a.seenKV[key] = idx
		a.cond.Broadcast()
	}
	for idx >= a.kvIdx && time.Now().Before(dl) && r.Context().Err() == nil && a.srv != nil {
		a.cond.Wait()
	}
	var out []kvPair
	var keys []string
	for k := range a.kv {
		if k == key || (recurse && strings.HasPrefix(k, key)) {
			keys = append(keys, k)
		}
	}
	sort.Strings(keys)
	for _, k := range keys {
		out = append(out, kvPair{Key: k, CreateIndex: 1, ModifyIndex: a.kvIdx, Value: base64.StdEncoding.EncodeToString([]byte(a.kv[k]))})
	}
	cur := a.kvIdx
	a.mu.Unlock()
	w.Header().Set("X-Consul-Index", strconv.FormatUint(cur, 10))
	w.Header().Set("Content-Type", "application/json")
	if len(out) == 0 {
		w.WriteHeader(404)
		return
	}
	json.NewEncoder(w).Encode(out)
}

func (a *Agent) String() string {
	a.mu.Lock()
	defer a.mu.Unlock()
	return fmt.Sprintf("idx=%d health=%d kv=%d insts=%d", a.idx, a.healthIdx, a.kvIdx, len(a.insts))
}
