// Package fabioproc starts and stops the real fabio binary built from /repo and scans its log.
package fabioproc

import (
	"bytes"
	"fmt"
	"net"
	"net/http"
	"os"
	"os/exec"
	"strings"
	"syscall"
	"time"
)

type Proc struct {
	Cmd     *exec.Cmd
	LogPath string
	Admin   string // host:port of the admin listener
	exited  chan struct{}
	ExitErr error
}

// FreePort returns a free loopback TCP port.
func FreePort() int {
	ln, err := net.Listen("tcp", "127.0.0.1:0")
	if err != nil {
		panic(err)
	}
	defer ln.Close()
	return ln.Addr().(*net.TCPAddr).Port
}

// Start launches fabio with the given arguments; -ui.addr and -insecure are added.
func Start(bin, logPath string, args []string, env []string) (*Proc, error) {
	admin := fmt.Sprintf("127.0.0.1:%d", FreePort())
	for _, a := range args {
		if strings.Contains(a, admin) { // never the same port as a proxy listener
			admin = fmt.Sprintf("127.0.0.1:%d", FreePort())
		}
	}
	full := append([]string{"-insecure", "-ui.addr", admin, "-registry.consul.register.enabled=false", "-log.level", "DEBUG"}, args...)
	cmd := exec.Command(bin, full...)
	f, err := os.Create(logPath)
	if err != nil {
		return nil, err
	}
	cmd.Stdout, cmd.Stderr = f, f
	cmd.Env = append(os.Environ(), "GORACE=halt_on_error=0")
	cmd.Env = append(cmd.Env, env...)
	if err := cmd.Start(); err != nil {
		return nil, err
	}
	p := &Proc{Cmd: cmd, LogPath: logPath, Admin: admin, exited: make(chan struct{})}
	go func() { p.ExitErr = cmd.Wait(); f.Close(); close(p.exited) }()
	return p, nil
}

// WaitReady waits until the admin listener answers /health.
func (p *Proc) WaitReady(max time.Duration) error {
	dl := time.Now().Add(max)
	for time.Now().Before(dl) {
		select {
		case <-p.exited:
			return fmt.Errorf("fabio exited during startup: %v\n%s", p.ExitErr, p.LogTail(2000))
		default:
		}
		resp, err := http.Get("http://" + p.Admin + "/health")
		if err == nil {
			resp.Body.Close()
			if resp.StatusCode == 200 {
				return nil
			}
		}
		time.Sleep(20 * time.Millisecond)
	}
	return fmt.Errorf("fabio admin listener not ready after %s\n%s", max, p.LogTail(2000))
}

// WaitListening waits until addr accepts TCP connections.
func WaitListening(addr string, max time.Duration) bool {
	dl := time.Now().Add(max)
	for time.Now().Before(dl) {
		c, err := net.DialTimeout("tcp", addr, 200*time.Millisecond)
		if err == nil {
			c.Close()
			return true
		}
		time.Sleep(20 * time.Millisecond)
	}
	return false
}

func (p *Proc) Alive() bool {
	select {
	case <-p.exited:
		return false
	default:
		return true
	}
}

func (p *Proc) Exited() <-chan struct{} { return p.exited }

func (p *Proc) Signal(sig syscall.Signal) { p.Cmd.Process.Signal(sig) }

// Stop terminates the process (SIGTERM, then SIGKILL) and returns the problems found in its log.
func (p *Proc) Stop() {
	if p.Alive() {
		p.Cmd.Process.Signal(syscall.SIGTERM)
		select {
		case <-p.exited:
		case <-time.After(8 * time.Second):
			p.Cmd.Process.Kill()
			<-p.exited
		}
	}
}

func (p *Proc) Kill() {
	if p.Alive() {
		p.Cmd.Process.Kill()
		<-p.exited
	}
}

func (p *Proc) LogTail(n int) string {
	b, _ := os.ReadFile(p.LogPath)
	if len(b) > n {
		b = b[len(b)-n:]
	}
	return string(b)
}

type Problem struct {
	Kind string // panic | fatal | race | http-panic
	Text string
}

// ScanLog looks for crashes and race reports in fabio's output.
func (p *Proc) ScanLog() []Problem {
	b, _ := os.ReadFile(p.LogPath)
	var out []Problem
	add := func(kind, marker string) {
		off := 0
		for n := 0; n < 5; n++ {
			i := bytes.Index(b[off:], []byte(marker))
			if i < 0 {
				return
			}
			s := off + i
			e := s + 3000
			if e > len(b) {
				e = len(b)
			}
			out = append(out, Problem{kind, string(b[s:e])})
			off = e
		}
	}
	add("race", "WARNING: DATA RACE")
	add("http-panic", "http: panic serving")
	add("panic", "\npanic: ")
	add("fatal", "fatal error: ")
	return out
}

// FirstFabioFrame extracts a stable signature from a race or panic report.
func FirstFabioFrame(text string) string {
	for _, ln := range strings.Split(text, "\n") {
		ln = strings.TrimSpace(ln)
		if strings.HasPrefix(ln, "github.com/fabiolb/fabio/") || strings.HasPrefix(ln, "main.") {
			if i := strings.Index(ln, "("); i > 0 {
				// keep receiver types, drop arguments
				if j := strings.LastIndex(ln, "("); j > 0 && !strings.HasSuffix(ln[:j], ")") {
					return ln[:j]
				}
				return ln
			}
			return ln
		}
	}
	return "?"
}
