// Package rep collects what a monitor observed: counters, distinct non-trivial
// cases, samples, violations and inconclusive notes. All methods are safe for
// concurrent use (the monitor's own state must not become the race).
package rep

import (
	"encoding/json"
	"fmt"
	"hash/fnv"
	"os"
	"sort"
	"sync"
	"sync/atomic"
	"time"
)

type Violation struct {
	Sig    string `json:"sig"`    // stable signature used for known-finding matching
	Detail string `json:"detail"` // human readable: expected vs observed
	Input  any    `json:"input"`  // replay payload
}

type Report struct {
	Property     string           `json:"property"`
	Part         string           `json:"part"`
	Seed         int64            `json:"seed"`
	Tier         string           `json:"tier"`
	Evaluations  int64            `json:"evaluations"`
	Distinct     int64            `json:"distinct_nontrivial"`
	Rule         string           `json:"rule"`
	Samples      []any            `json:"samples"`
	Counters     map[string]int64 `json:"counters"`
	Violations   []Violation      `json:"violations"`
	NViolations  int64            `json:"n_violations"`
	Inconclusive []string         `json:"inconclusive"`
	Exhaustive   bool             `json:"exhaustive,omitempty"`
	WallS        float64          `json:"wall_s"`
	Notes        []string         `json:"notes,omitempty"`

	mu       sync.Mutex
	distinct map[uint64]struct{}
	sigSeen  map[string]int
	start    time.Time
	evals    atomic.Int64
	maxSamp  int
}

func New(property, part string, seed int64, tier string) *Report {
	return &Report{Property: property, Part: part, Seed: seed, Tier: tier,
		Counters: map[string]int64{}, distinct: map[uint64]struct{}{}, sigSeen: map[string]int{},
		start: time.Now(), maxSamp: 6}
}

func (r *Report) Eval(n int64) { r.evals.Add(n) }

func (r *Report) Count(name string, n int64) {
	r.mu.Lock()
	r.Counters[name] += n
	r.mu.Unlock()
}

func (r *Report) SetCounter(name string, n int64) {
	r.mu.Lock()
	r.Counters[name] = n
	r.mu.Unlock()
}

func (r *Report) MaxCounter(name string, n int64) {
	r.mu.Lock()
	if n > r.Counters[name] {
		r.Counters[name] = n
	}
	r.mu.Unlock()
}

// Nontrivial records one non-trivial case identified by key; distinct keys are counted.
func (r *Report) Nontrivial(key string) {
	h := fnv.New64a()
	h.Write([]byte(key))
	k := h.Sum64()
	r.mu.Lock()
	r.distinct[k] = struct{}{}
	r.mu.Unlock()
}

func (r *Report) Sample(s any) {
	r.mu.Lock()
	if len(r.Samples) < r.maxSamp {
		r.Samples = append(r.Samples, s)
	}
	r.mu.Unlock()
}

// WantSample reports whether more samples are wanted (cheap pre-check).
func (r *Report) WantSample() bool {
	r.mu.Lock()
	defer r.mu.Unlock()
	return len(r.Samples) < r.maxSamp
}

func (r *Report) Note(format string, a ...any) {
	r.mu.Lock()
	r.Notes = append(r.Notes, fmt.Sprintf(format, a...))
	r.mu.Unlock()
}

// Violate records a violation. At most 3 witnesses are kept per signature and 60 overall.
func (r *Report) Violate(sig, detail string, input any) {
	r.mu.Lock()
	defer r.mu.Unlock()
	r.NViolations++
	r.sigSeen[sig]++
	if r.sigSeen[sig] > 3 || len(r.Violations) >= 60 {
		return
	}
	r.Violations = append(r.Violations, Violation{Sig: sig, Detail: detail, Input: input})
}

func (r *Report) NumViolations() int64 {
	r.mu.Lock()
	defer r.mu.Unlock()
	return r.NViolations
}

func (r *Report) Inconcl(format string, a ...any) {
	r.mu.Lock()
	r.Inconclusive = append(r.Inconclusive, fmt.Sprintf(format, a...))
	r.mu.Unlock()
}

// Merge folds a child report (e.g. from a batch process) into r.
func (r *Report) Merge(c *Report) {
	r.mu.Lock()
	defer r.mu.Unlock()
	r.evals.Add(c.Evaluations)
	for k, v := range c.Counters {
		r.Counters[k] += v
	}
	for _, s := range c.Samples {
		if len(r.Samples) < r.maxSamp {
			r.Samples = append(r.Samples, s)
		}
	}
	for _, v := range c.Violations {
		r.sigSeen[v.Sig]++
		if r.sigSeen[v.Sig] <= 3 && len(r.Violations) < 60 {
			r.Violations = append(r.Violations, v)
		}
	}
	r.NViolations += c.NViolations
	r.Inconclusive = append(r.Inconclusive, c.Inconclusive...)
	r.Notes = append(r.Notes, c.Notes...)
	r.Distinct += c.Distinct
}

func (r *Report) Finish() {
	r.mu.Lock()
	defer r.mu.Unlock()
	r.Evaluations = r.evals.Load()
	r.Distinct += int64(len(r.distinct))
	r.distinct = map[uint64]struct{}{}
	r.WallS = time.Since(r.start).Seconds()
	if r.Samples == nil {
		r.Samples = []any{}
	}
	if r.Violations == nil {
		r.Violations = []Violation{}
	}
	if r.Inconclusive == nil {
		r.Inconclusive = []string{}
	}
	sort.Strings(r.Inconclusive)
}

func (r *Report) Write(path string) error {
	r.Finish()
	b, err := json.MarshalIndent(r, "", " ")
	if err != nil {
		return err
	}
	return os.WriteFile(path, b, 0o644)
}

// WriteSnapshot writes the current state without finishing the report (used by
// children that may be ended by the code under test at any time).
func (r *Report) WriteSnapshot(path string) {
	r.mu.Lock()
	e, d, w := r.Evaluations, r.Distinct, r.WallS
	r.Evaluations = r.evals.Load()
	r.Distinct = d + int64(len(r.distinct))
	r.WallS = time.Since(r.start).Seconds()
	b, err := json.Marshal(r)
	r.Evaluations, r.Distinct, r.WallS = e, d, w
	r.mu.Unlock()
	if err == nil {
		os.WriteFile(path+".tmp", b, 0o644)
		os.Rename(path+".tmp", path)
	}
}

func Load(path string) (*Report, error) {
	b, err := os.ReadFile(path)
	if err != nil {
		return nil, err
	}
	r := New("", "", 0, "")
	if err := json.Unmarshal(b, r); err != nil {
		return nil, err
	}
	return r, nil
}
