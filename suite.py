#!/usr/bin/env python3
"""Run fabio's own test suite (build tag off) in /repo and compare with the pinned baseline:
every test in BASELINE.stable_pass must pass. Exit 0 / 1."""
import json, subprocess, sys
ENV = ("export PATH=/root/go/pkg/mod/golang.org/toolchain@v0.0.1-go1.24.0.linux-amd64/bin:$PATH "
       "GOTOOLCHAIN=local GOPROXY=off GOSUMDB=off GOFLAGS=-mod=mod; ")
B = json.load(open("/root/.vp/BASELINE.json"))
repo = sys.argv[1] if len(sys.argv) > 1 else "/repo"
p = subprocess.run(["bash", "-c", ENV + "cd %s && go test -json -vet=off -count=1 -timeout 25m ./... 2>&1" % repo], capture_output=True, text=True, errors="replace")
res = {}
for line in p.stdout.splitlines():
    try:
        ev = json.loads(line)
    except Exception:
        continue
    if ev.get("Test") and ev.get("Action") in ("pass", "fail", "skip"):
        res["%s::%s" % (ev["Package"], ev["Test"])] = ev["Action"]
stable = B["stable_pass"]
bad = [t for t in stable if res.get(t) != "pass"]
if bad:
    # load dependent tests: one retry of the affected packages
    pkgs = sorted(set(t.split("::")[0] for t in bad))
    p2 = subprocess.run(["bash", "-c", ENV + "cd %s && go test -json -vet=off -count=1 %s 2>&1" % (repo, " ".join(pkgs))], capture_output=True, text=True, errors="replace")
    for line in p2.stdout.splitlines():
        try:
            ev = json.loads(line)
        except Exception:
            continue
        if ev.get("Test") and ev.get("Action") in ("pass", "fail", "skip"):
            res["%s::%s" % (ev["Package"], ev["Test"])] = ev["Action"]
    bad = [t for t in stable if res.get(t) != "pass"]
print("stable tests: %d, passing now: %d, not passing: %s" % (len(stable), len(stable) - len(bad), bad[:10]))
sys.exit(1 if bad else 0)
