# sourced by every script: selects the go toolchain that can build /repo offline
if [ -z "$VERIF_GOROOT" ]; then
  for d in /root/go/pkg/mod/golang.org/toolchain@v0.0.1-go1.24.0.linux-amd64 "$(go env GOMODCACHE 2>/dev/null)/golang.org/toolchain@v0.0.1-go1.24.0.linux-amd64"; do
    if [ -x "$d/bin/go" ]; then VERIF_GOROOT="$d"; break; fi
  done
  if [ -z "$VERIF_GOROOT" ]; then
    VERIF_GOROOT=$(cd /repo && env -u GOSUMDB GOTOOLCHAIN=auto GOPROXY=off GOFLAGS=-mod=mod go env GOROOT 2>/dev/null)
  fi
  if [ -z "$VERIF_GOROOT" ] || [ ! -x "$VERIF_GOROOT/bin/go" ]; then
    VERIF_GOROOT=/opt/veriftools/go1.26.8
  fi
  export VERIF_GOROOT
fi
export PATH="$VERIF_GOROOT/bin:$PATH"
export GOROOT="$VERIF_GOROOT"
export GOTOOLCHAIN=local GOPROXY=off GOSUMDB=off GOFLAGS=-mod=mod CGO_ENABLED=1
